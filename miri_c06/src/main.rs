//! C06 auxiliary lane: the decoders on hostile bytes under Miri (undefined behaviour, overflow and
//! panic detection inside cfdp-core and its dependencies on these paths).
//! usage: miri-c06 <seed> <cases>
use cfdp_core::filestore::ChecksumType;
use cfdp_core::pdu::*;

struct Rng(u64);
impl Rng {
    fn next(&mut self) -> u64 {
        self.0 = self.0.wrapping_add(0x9E3779B97F4A7C15);
        let mut z = self.0;
        z = (z ^ (z >> 30)).wrapping_mul(0xBF58476D1CE4E5B9);
        z = (z ^ (z >> 27)).wrapping_mul(0x94D049BB133111EB);
        z ^ (z >> 31)
    }
    fn below(&mut self, n: u64) -> u64 {
        self.next() % n.max(1)
    }
}

fn hdr(dir: Direction, crc: bool, large: bool, w: usize) -> PDUHeader {
    let id = |x: u64| match w {
        1 => VariableID::from(x as u8),
        2 => VariableID::from(x as u16),
        4 => VariableID::from(x as u32),
        _ => VariableID::from(x),
    };
    PDUHeader {
        version: U3::One,
        pdu_type: PDUType::FileDirective,
        direction: dir,
        transmission_mode: TransmissionMode::Acknowledged,
        crc_flag: if crc { CRCFlag::Present } else { CRCFlag::NotPresent },
        large_file_flag: if large { FileSizeFlag::Large } else { FileSizeFlag::Small },
        pdu_data_field_length: 0,
        segmentation_control: SegmentationControl::NotPreserved,
        segment_metadata_flag: SegmentedData::NotPresent,
        source_entity_id: id(5),
        transaction_sequence_number: id(77),
        destination_entity_id: id(9),
    }
}
fn mk(h: &PDUHeader, payload: PDUPayload) -> Vec<u8> {
    let pdu_type = match &payload {
        PDUPayload::FileData(_) => PDUType::FileData,
        PDUPayload::Directive(_) => PDUType::FileDirective,
    };
    let len = payload.encoded_len(h.large_file_flag);
    PDU { header: PDUHeader { pdu_type, pdu_data_field_length: len, ..h.clone() }, payload }.encode()
}

fn corpus() -> Vec<Vec<u8>> {
    let mut v = vec![];
    for (crc, large, w) in [(false, false, 2usize), (true, false, 1), (true, true, 8), (false, true, 4)] {
        let h = hdr(Direction::ToReceiver, crc, large, w);
        let hs = hdr(Direction::ToSender, crc, large, w);
        v.push(mk(&h, PDUPayload::Directive(Operations::Metadata(MetadataPDU {
            closure_requested: true,
            checksum_type: ChecksumType::Modular,
            file_size: 1234,
            source_filename: "a/src.bin".into(),
            destination_filename: "b/dst.bin".into(),
            options: vec![
                MetadataTLV::FileStoreRequest(FileStoreRequest { action_code: FileStoreAction::RenameFile, first_filename: "x".into(), second_filename: "y".into() }),
                MetadataTLV::MessageToUser(MessageToUser { message_text: b"hello".to_vec() }),
            ],
        }))));
        v.push(mk(&h, PDUPayload::Directive(Operations::EoF(EndOfFile { condition: Condition::CancelReceived, checksum: 0xdeadbeef, file_size: 99, fault_location: Some(VariableID::from(3u16)) }))));
        v.push(mk(&hs, PDUPayload::Directive(Operations::Finished(Finished {
            condition: Condition::NoError,
            delivery_code: DeliveryCode::Complete,
            file_status: FileStatusCode::Retained,
            filestore_response: vec![FileStoreResponse { action_and_status: FileStoreStatus::RenameFile(RenameStatus::Successful), first_filename: "x".into(), second_filename: "y".into(), filestore_message: vec![1, 2, 3] }],
            fault_location: None,
        }))));
        v.push(mk(&hs, PDUPayload::Directive(Operations::Nak(NegativeAcknowledgmentPDU { start_of_scope: 0, end_of_scope: 500, segment_requests: vec![SegmentRequestForm { start_offset: 0, end_offset: 0 }, SegmentRequestForm { start_offset: 10, end_offset: 200 }] }))));
        v.push(mk(&hs, PDUPayload::Directive(Operations::Ack(PositiveAcknowledgePDU { directive: PDUDirective::EoF, directive_subtype_code: ACKSubDirective::Other, condition: Condition::NoError, transaction_status: TransactionStatus::Active }))));
        v.push(mk(&hs, PDUPayload::Directive(Operations::KeepAlive(KeepAlivePDU { progress: 4242 }))));
        v.push(mk(&h, PDUPayload::Directive(Operations::Prompt(PromptPDU { nak_or_keep_alive: NakOrKeepAlive::KeepAlive }))));
        v.push(mk(&h, PDUPayload::FileData(FileDataPDU::Unsegmented(UnsegmentedFileData { offset: 64, file_data: (0..40u8).collect() }))));
    }
    v
}

fn feed(b: &[u8], stats: &mut (u64, u64)) {
    let mut s = b;
    match PDU::decode(&mut s) {
        Ok(p) => {
            stats.0 += 1;
            // canonicality: re-encode with the length recomputed, decode again
            let len = p.payload.encoded_len(p.header.large_file_flag);
            let p2 = PDU { header: PDUHeader { pdu_data_field_length: len, ..p.header.clone() }, payload: p.payload.clone() };
            let e = p2.clone().encode();
            let mut s2 = e.as_slice();
            let d = PDU::decode(&mut s2).expect("re-encoding of an accepted PDU is rejected");
            assert!(d == p2, "accepted PDU is not canonical");
        }
        Err(_) => stats.1 += 1,
    }
    // the user-operation decoder on the same bytes
    let mut s = b;
    let _ = UserOperation::decode(&mut s);
}

fn main() {
    let a: Vec<String> = std::env::args().collect();
    let seed: u64 = a.get(1).and_then(|x| x.parse().ok()).unwrap_or(1);
    let n: u64 = a.get(2).and_then(|x| x.parse().ok()).unwrap_or(300);
    let mut rng = Rng(seed);
    let corp = corpus();
    let mut stats = (0u64, 0u64);
    let mut cases = 0u64;
    while cases < n {
        let base = &corp[rng.below(corp.len() as u64) as usize];
        let mut b = base.clone();
        match rng.below(6) {
            0 => {
                let k = rng.below(b.len() as u64 + 1) as usize;
                b.truncate(k);
            }
            1 | 2 => {
                let k = rng.below(b.len() as u64) as usize;
                b[k] = *[0u8, 1, 2, 0x7f, 0x80, 0xff, 0xfe][rng.below(7) as usize..].first().unwrap();
            }
            3 => {
                let k = rng.below(b.len() as u64) as usize;
                b[k] ^= 1 << rng.below(8);
                let k2 = rng.below(b.len() as u64) as usize;
                b[k2] = rng.next() as u8;
            }
            4 => {
                // force the header's length field to a boundary value
                let v = [0u16, 1, 2, 255, 65535][rng.below(5) as usize];
                b[1] = (v >> 8) as u8;
                b[2] = v as u8;
            }
            _ => {
                let l = rng.below(48) as usize;
                b = (0..l).map(|_| rng.next() as u8).collect();
            }
        }
        feed(&b, &mut stats);
        cases += 1;
    }
    for c in &corp {
        feed(c, &mut stats);
    }
    println!("MIRI-C06-OK seed={} cases={} accepted={} rejected={}", seed, cases + corp.len() as u64, stats.0, stats.1);
}
