//! E2 codec monitors: C05 (round trip), C06 (hostile bytes), C15 (CRC rejects corruption).
use crate::alloc;
use crate::gen::*;
use crate::report::{Meta, Report};
use crate::util::{fnv1a, fnv_mix, hex, run_pool, unhex, Rng, J};
use cfdp_core::daemon::Report as StatusReport;
use cfdp_core::pdu::*;
use cfdp_core::transaction::{TransactionID, TransactionState};
use std::fmt::Debug;
use std::panic::{catch_unwind, AssertUnwindSafe};

/// Name of the field at which two Debug renderings first differ.
pub fn first_diff_field(a: &str, b: &str) -> String {
    let ab = a.as_bytes();
    let bb = b.as_bytes();
    let mut i = 0;
    while i < ab.len() && i < bb.len() && ab[i] == bb[i] {
        i += 1;
    }
    // walk back to the last "ident:" before i
    let mut i = i.min(a.len());
    while !a.is_char_boundary(i) {
        i -= 1;
    }
    let prefix = &a[..i];
    if let Some(pos) = prefix.rfind(": ") {
        let before = &prefix[..pos];
        let start = before
            .char_indices()
            .rev()
            .find(|(_, c)| !(c.is_alphanumeric() || *c == '_'))
            .map(|(p, c)| p + c.len_utf8())
            .unwrap_or(0);
        let f = &before[start..];
        if !f.is_empty() {
            return f.to_string();
        }
    }
    // enum payloads: last identifier followed by '('
    if let Some(pos) = prefix.rfind('(') {
        let before = &prefix[..pos];
        let start = before
            .char_indices()
            .rev()
            .find(|(_, c)| !(c.is_alphanumeric() || *c == '_'))
            .map(|(p, c)| p + c.len_utf8())
            .unwrap_or(0);
        return before[start..].to_string();
    }
    "?".to_string()
}

fn short(s: &str) -> String {
    if s.len() > 400 {
        format!("{}…", &s[..s.char_indices().take_while(|(i, _)| *i < 400).last().map(|(i, c)| i + c.len_utf8()).unwrap_or(0)])
    } else {
        s.to_string()
    }
}

struct Ctx<'a> {
    rep: &'a mut Report,
    case: String,
}
impl<'a> Ctx<'a> {
    /// generic round-trip oracle
    fn check<T: Clone + PartialEq + Debug>(
        &mut self,
        ty: &str,
        cell: &str,
        x: &T,
        announced: usize,
        enc: impl FnOnce(T) -> Vec<u8>,
        dec: impl FnOnce(&[u8]) -> PDUResult<T>,
    ) {
        self.rep.eval();
        self.rep.count(&format!("cell:{}/{}", ty, cell));
        let r = catch_unwind(AssertUnwindSafe(|| {
            let bytes = enc(x.clone());
            let d = dec(&bytes);
            (bytes, d)
        }));
        match r {
            Err(_) => {
                self.rep.violate(
                    "roundtrip-panic",
                    format!("{}:panic", ty),
                    &self.case,
                    format!("encode/decode of {} panicked; value {}", ty, short(&format!("{:?}", x))),
                );
            }
            Ok((bytes, d)) => {
                self.rep.nontrivial(fnv_mix(fnv1a(ty.as_bytes()), fnv1a(&bytes)));
                if bytes.len() != announced {
                    self.rep.violate(
                        "encoded-len",
                        format!("{}:len-mismatch", ty),
                        &self.case,
                        format!(
                            "{}: encoded_len announces {} but encode produced {} bytes; value {}",
                            ty,
                            announced,
                            bytes.len(),
                            short(&format!("{:?}", x))
                        ),
                    );
                }
                match d {
                    Err(e) => self.rep.violate(
                        "roundtrip",
                        format!("{}:decode-error", ty),
                        &self.case,
                        format!(
                            "{}: decode(encode(x)) failed: {}; x={} bytes={}",
                            ty,
                            e,
                            short(&format!("{:?}", x)),
                            short(&hex(&bytes))
                        ),
                    ),
                    Ok(y) => {
                        if &y != x {
                            let a = format!("{:?}", x);
                            let b = format!("{:?}", y);
                            let f = first_diff_field(&a, &b);
                            self.rep.violate(
                                "roundtrip",
                                format!("{}:value-mismatch:{}", ty, f),
                                &self.case,
                                format!(
                                    "{}: decode(encode(x)) != x at field {}; x={} got={}",
                                    ty,
                                    f,
                                    short(&a),
                                    short(&b)
                                ),
                            );
                        }
                    }
                }
            }
        }
    }
}

fn rt_pdu_f<T: PDUEncode<PDUType = T> + Clone + PartialEq + Debug>(ctx: &mut Ctx, ty: &str, cell: &str, x: T) {
    let l = x.encoded_len() as usize;
    ctx.check(ty, cell, &x, l, |v| v.encode(), |mut b| T::decode(&mut b));
}
fn rt_fss_f<T: FSSEncode<PDUType = T> + Clone + PartialEq + Debug>(
    ctx: &mut Ctx,
    ty: &str,
    cell: &str,
    f: FileSizeFlag,
    x: T,
) {
    let l = x.encoded_len(f) as usize;
    ctx.check(ty, cell, &x, l, |v| v.encode(f), |mut b| T::decode(&mut b, f));
}
macro_rules! rt_pdu {
    ($ctx:expr, $ty:literal, $cell:expr, $x:expr) => {{
        let c: String = ($cell).to_string();
        let x = $x;
        rt_pdu_f(&mut $ctx, $ty, &c, x);
    }};
}
macro_rules! rt_fss {
    ($ctx:expr, $ty:literal, $cell:expr, $flag:expr, $x:expr) => {{
        let c: String = ($cell).to_string();
        let x = $x;
        rt_fss_f(&mut $ctx, $ty, &c, $flag, x);
    }};
}

fn flag_of(large: bool) -> FileSizeFlag {
    if large {
        FileSizeFlag::Large
    } else {
        FileSizeFlag::Small
    }
}
fn fl(large: bool) -> &'static str {
    if large {
        "large"
    } else {
        "small"
    }
}

/// One C05 case: index `i` selects the discrete cell, the rng fills in the rest.
fn c05_case(rep: &mut Report, seed: u64, i: u64, sample: bool) {
    let mut rng = Rng::derive(seed, 5, i);
    let case = format!("C05/{}/{}", seed, i);
    let mut ctx = Ctx { rep, case };
    // --- whole PDU, header combination i, directive kind cycling independently
    let bits = header_bits(i);
    let kind = (i / N_HEADER_COMBOS) % N_OP_KINDS + (i % N_OP_KINDS);
    let pdu = gen_pdu(&mut rng, bits, kind, if i % 97 == 0 { 4000 } else { 64 });
    let flag = pdu.header.large_file_flag;
    let kname = match &pdu.payload {
        PDUPayload::FileData(FileDataPDU::Segmented(_)) => "FileDataSeg",
        PDUPayload::FileData(_) => "FileData",
        PDUPayload::Directive(op) => match op {
            Operations::EoF(_) => "EoF",
            Operations::Finished(_) => "Finished",
            Operations::Ack(_) => "Ack",
            Operations::Metadata(_) => "Metadata",
            Operations::Nak(_) => "Nak",
            Operations::Prompt(_) => "Prompt",
            Operations::KeepAlive(_) => "KeepAlive",
        },
    };
    let cell = format!(
        "{}/{}/crc{}/id{}/seq{}",
        kname,
        fl(bits.large),
        bits.crc as u8,
        bits.id_w,
        bits.seq_w
    );
    let announced = pdu.header.encoded_len() as usize
        + pdu.header.pdu_data_field_length as usize
        + if bits.crc { 2 } else { 0 };
    if sample {
        ctx.rep.sample(
            J::obj()
                .set("case", J::s(&ctx.case))
                .set("type", J::s("PDU"))
                .set("cell", J::s(&cell))
                .set("value", J::s(short(&format!("{:?}", pdu))))
                .set("encoding", J::s(short(&hex(&pdu.clone().encode())))),
        );
    }
    ctx.check("PDU", &cell, &pdu, announced, |v| v.encode(), |mut b| PDU::decode(&mut b));
    // header alone
    rt_pdu!(ctx, "PDUHeader", &format!("id{}/seq{}", bits.id_w, bits.seq_w), pdu.header.clone());
    // payload alone
    {
        let p = pdu.payload.clone();
        let l = p.encoded_len(flag) as usize;
        let ty = pdu.header.pdu_type.clone();
        let seg = pdu.header.segment_metadata_flag;
        ctx.check("PDUPayload", kname, &p, l, |v| v.encode(flag), |mut b| {
            PDUPayload::decode(&mut b, ty, flag, seg)
        });
    }
    // --- standalone directive types with enumerated discrete fields
    let large = (i >> 1) & 1 == 1;
    let f = flag_of(large);
    let cond = ALL_CONDITIONS[(i % 14) as usize];
    let dc = ALL_DELIVERY[((i / 14) % 2) as usize];
    let fs = ALL_FILE_STATUS[((i / 28) % 4) as usize];
    let st = ALL_TX_STATUS[((i / 112) % 4) as usize];
    rt_fss!(ctx, "EndOfFile", &format!("{}/{:?}", fl(large), cond), f, gen_eof(&mut rng, f, cond));
    {
        let n = rng.usize(4);
        rt_pdu!(
            ctx,
            "Finished",
            &format!("{:?}/{:?}/{:?}", cond, dc, fs),
            gen_finished(&mut rng, cond, dc, fs, n)
        );
    }
    rt_pdu!(ctx, "PositiveAcknowledgePDU", &format!("{:?}/{:?}", cond, st), gen_ack(&mut rng, cond, st));
    {
        let n = rng.usize(5);
        rt_fss!(ctx, "MetadataPDU", fl(large), f, gen_metadata(&mut rng, f, n));
    }
    {
        let n = blen(&mut rng, 30);
        rt_fss!(ctx, "NegativeAcknowledgmentPDU", fl(large), f, gen_nak(&mut rng, f, n));
        rt_fss!(
            ctx,
            "SegmentRequestForm",
            fl(large),
            f,
            gen_nak(&mut rng, f, 1).segment_requests.remove(0)
        );
    }
    rt_pdu!(
        ctx,
        "PromptPDU",
        "",
        PromptPDU {
            nak_or_keep_alive: if i & 1 == 0 { NakOrKeepAlive::Nak } else { NakOrKeepAlive::KeepAlive }
        }
    );
    rt_fss!(ctx, "KeepAlivePDU", fl(large), f, match gen_operation(&mut rng, f, 6) {
        Operations::KeepAlive(k) => k,
        _ => unreachable!(),
    });
    {
        let op = gen_operation(&mut rng, f, i);
        rt_fss!(ctx, "Operations", &format!("{}/{}", op_kind_name(i), fl(large)), f, op);
    }
    {
        let seg = if (i >> 2) & 1 == 1 { SegmentedData::Present } else { SegmentedData::NotPresent };
        let fd = gen_filedata(&mut rng, f, seg, 200);
        let l = SegmentEncode::encoded_len(&fd, f) as usize;
        ctx.check(
            "FileDataPDU",
            &format!("{:?}/{}", seg, fl(large)),
            &fd,
            l,
            |v| SegmentEncode::encode(v, f),
            |mut b| <FileDataPDU as SegmentEncode>::decode(&mut b, seg, f),
        );
        match fd {
            FileDataPDU::Unsegmented(u) => rt_fss!(ctx, "UnsegmentedFileData", fl(large), f, u),
            FileDataPDU::Segmented(s) => rt_fss!(ctx, "SegmentedFileData", fl(large), f, s),
        }
    }
    // --- TLVs and small types
    let w = WIDTHS[(i % 4) as usize];
    {
        // VariableID::encoded_len is the width of the value (the header relies on it) while
        // encode() emits length + value; as a stand-alone value only the round trip is judged.
        let v = id_of_width(&mut rng, w);
        let l = v.encode().len();
        ctx.check("VariableID", &format!("w{}", w), &v, l, |v| v.encode(), |mut b| VariableID::decode(&mut b));
    }
    rt_pdu!(ctx, "MetadataTLV", &format!("k{}", i % 6), gen_metadata_tlv(&mut rng, i));
    {
        let all = all_filestore_status();
        let s = all[(i as usize) % all.len()];
        rt_pdu!(ctx, "FileStoreResponse", &format!("{:?}", s), gen_fs_response(&mut rng, s, 600));
        let r = gen_fs_request(&mut rng, 500);
        rt_pdu!(ctx, "FileStoreRequest", &format!("{:?}", r.action_code), r);
    }
    rt_pdu!(ctx, "FlowLabel", "", FlowLabel { value: bytes_upto(&mut rng, 255) });
    rt_pdu!(ctx, "MessageToUser", "", MessageToUser { message_text: bytes_upto(&mut rng, 255) });
    {
        let h = handler_codes();
        let c = h[(i as usize) % h.len()].clone();
        rt_pdu!(ctx, "FaultHandlerOverride", &format!("{:?}", c), FaultHandlerOverride { fault_handler_code: c });
    }
    rt_pdu!(
        ctx,
        "TransmissionMode",
        "",
        if i & 1 == 0 { TransmissionMode::Acknowledged } else { TransmissionMode::Unacknowledged }
    );
    // --- reserved user operations: kind x id width x seq width enumerated
    let uk = i % N_USEROP_KINDS;
    let idw = WIDTHS[((i / N_USEROP_KINDS) % 4) as usize];
    let seqw = WIDTHS[((i / (N_USEROP_KINDS * 4)) % 4) as usize];
    let ucell = format!("{}/id{}/seq{}/{:?}", userop_kind_name(uk), idw, seqw, st);
    match gen_userop(&mut rng, uk, idw, seqw) {
        Some(mut op) => {
            // enumerate the transaction status of the three response kinds
            match &mut op {
                UserOperation::Response(UserResponse::RemoteResume(r)) => r.transaction_status = st,
                UserOperation::Response(UserResponse::RemoteSuspend(r)) => r.transaction_status = st,
                UserOperation::Response(UserResponse::RemoteStatusReport(r)) => r.transaction_status = st,
                _ => {}
            }
            if sample && i % 3 == 0 {
                ctx.rep.sample(
                    J::obj()
                        .set("case", J::s(&ctx.case))
                        .set("type", J::s("UserOperation"))
                        .set("cell", J::s(&ucell))
                        .set("value", J::s(short(&format!("{:?}", op)))),
                );
            }
            rt_pdu!(ctx, "UserOperation", &ucell, op.clone());
            // carried as a message to user inside a Metadata PDU inside a whole PDU
            let m = MessageToUser::from(op.clone());
            if m.message_text.len() <= 255 {
                let mut md = gen_metadata(&mut rng, f, 0);
                md.options.push(MetadataTLV::MessageToUser(m.clone()));
                rt_fss!(ctx, "MetadataPDU+UserOp", userop_kind_name(uk), f, md);
                // and the text decodes back to the operation
                ctx.rep.eval();
                match UserOperation::decode(&mut m.message_text.as_slice()) {
                    Ok(back) if back == op => {}
                    other => ctx.rep.violate(
                        "roundtrip",
                        format!("UserOperation-in-MessageToUser:{}", userop_kind_name(uk)),
                        &ctx.case.clone(),
                        format!("message text does not decode back: {:?} vs {:?}", short(&format!("{:?}", other)), short(&format!("{:?}", op))),
                    ),
                }
            }
        }
        None => {
            // private-field types: reached by decoding generated well-formed bytes
            let bytes = private_userop_bytes(&mut rng, uk);
            ctx.rep.eval();
            match catch_unwind(AssertUnwindSafe(|| UserOperation::decode(&mut bytes.as_slice()))) {
                Ok(Ok(op)) => {
                    rt_pdu!(ctx, "UserOperation", &ucell, op);
                }
                Ok(Err(e)) => ctx.rep.violate(
                    "roundtrip",
                    format!("{}:wellformed-bytes-rejected", userop_kind_name(uk)),
                    &ctx.case.clone(),
                    format!("well-formed bytes {} rejected: {}", hex(&bytes), e),
                ),
                Err(_) => ctx.rep.violate(
                    "roundtrip-panic",
                    format!("{}:panic", userop_kind_name(uk)),
                    &ctx.case.clone(),
                    format!("decode panicked on {}", hex(&bytes)),
                ),
            }
        }
    }
    // --- status report
    {
        ctx.rep.eval();
        ctx.rep.count("cell:Report/");
        let r = StatusReport {
            id: TransactionID(id_of_width(&mut rng, idw), id_of_width(&mut rng, seqw)),
            state: match i % 3 {
                0 => TransactionState::Active,
                1 => TransactionState::Suspended,
                _ => TransactionState::Terminated,
            },
            status: st,
            condition: cond,
        };
        let bytes = r.clone().encode();
        match StatusReport::decode(&mut bytes.as_slice()) {
            Ok(b) if b.id == r.id && b.state == r.state && b.status == r.status && b.condition == r.condition => {}
            other => ctx.rep.violate(
                "roundtrip",
                "Report:value-mismatch".to_string(),
                &ctx.case.clone(),
                format!("Report {:?} came back as {:?}", r, other),
            ),
        }
    }
}

pub fn run_c05(tier: &str, seed: u64, replay: Option<&str>) -> (Meta, Report) {
    let meta = Meta {
        property: "C05",
        level: "exploration",
        rule: "case i takes header combination i mod 16384 (all version/type/direction/mode/crc/size-flag/segmentation bits x id widths {1,2,4,8} x seq widths), condition i mod 14 x delivery x file status x transaction status, user-operation kind i mod 26 x id width x seq width, every filestore status and handler code cyclically; strings/bytes/integers random with boundary bias (0,1,255,max). distinct_nontrivial = distinct (type, encoding) pairs that were round-tripped".into(),
        exhaustive: false,
        assumptions: vec![
            "well-formed = within the wire limits named in the property (LV <= 255 bytes, Finished TLV value <= 255, segment metadata <= 63, equal-width entity ids in a header, sizes < 2^32 under the small flag, fault location iff error condition, ACK only of EoF/Finished)".into(),
            "types with private fields (SFORequest, SFOReport, ProxySegmentationControl) are reached by decoding generated well-formed bytes".into(),
            "PDU length rule checked as header_len + data_field_length (+2 with CRC) == bytes produced".into(),
        ],
        require: vec![],
        extra: vec![],
    };
    if let Some(case) = replay {
        let parts: Vec<&str> = case.split('/').collect();
        let s: u64 = parts[1].parse().unwrap();
        let i: u64 = parts[2].parse().unwrap();
        let mut rep = Report::new();
        rep.max_samples = 50;
        c05_case(&mut rep, s, i, true);
        return (meta, rep);
    }
    let n: usize = if tier == "thorough" { 3_000_000 } else { 120_000 };
    let reps = run_pool(
        n,
        crate::util::n_threads(),
        120,
        |_| Report::new(),
        move |i| format!("C05/{}/{}", seed, i),
        move |rep, i| c05_case(rep, seed, i as u64, i % 40_001 == 7),
    );
    let mut rep = Report::new();
    for r in reps {
        rep.merge(r);
    }
    // coverage requirement: no empty discrete cell
    let mut meta = meta;
    let mut empty = vec![];
    for large in [false, true] {
        for crc in [0, 1] {
            for idw in WIDTHS {
                for seqw in WIDTHS {
                    for k in ["EoF", "Finished", "Ack", "Metadata", "Nak", "Prompt", "KeepAlive", "FileData", "FileDataSeg"] {
                        let c = format!("cell:PDU/{}/{}/crc{}/id{}/seq{}", k, fl(large), crc, idw, seqw);
                        if rep.get(&c) == 0 {
                            empty.push(c);
                        }
                    }
                }
            }
        }
    }
    for uk in 0..N_USEROP_KINDS {
        for idw in WIDTHS {
            for seqw in WIDTHS {
                let any = ALL_TX_STATUS.iter().any(|st| {
                    rep.get(&format!("cell:UserOperation/{}/id{}/seq{}/{:?}", userop_kind_name(uk), idw, seqw, st)) > 0
                });
                if !any {
                    empty.push(format!("UserOperation/{}/id{}/seq{}", userop_kind_name(uk), idw, seqw));
                }
            }
        }
    }
    let cells = rep.counters.keys().filter(|k| k.starts_with("cell:")).count();
    rep.add("distinct_cells", cells as u64);
    rep.add("empty_cells", empty.len() as u64);
    // collapse per-cell counters into per-type counters for the evidence (cells are too many)
    let mut per_type: std::collections::BTreeMap<String, u64> = Default::default();
    for (k, v) in rep.counters.iter() {
        if let Some(rest) = k.strip_prefix("cell:") {
            let t = rest.split('/').next().unwrap_or("");
            *per_type.entry(format!("cases:{}", t)).or_insert(0) += v;
        }
    }
    rep.counters.retain(|k, _| !k.starts_with("cell:"));
    for (k, v) in per_type {
        rep.counters.insert(k, v);
    }
    if !empty.is_empty() {
        meta.require.push((format!("no empty cell (first empty: {})", empty[0]), 1));
    }
    (meta, rep)
}

// =============================================================================================
// C06

const MAX_REQ: u64 = 256 * 1024;
const MAX_PEAK: u64 = 1024 * 1024;

fn dec_name(k: usize) -> &'static str {
    [
        "PDU",
        "PDUHeader",
        "Operations/small",
        "Operations/large",
        "FileData/unseg",
        "FileData/seg",
        "MetadataTLV",
        "FileStoreRequest",
        "FileStoreResponse",
        "VariableID",
        "UserOperation",
        "Report",
        "Finished",
        "EndOfFile",
        "MetadataPDU",
        "NAK",
        "Ack",
        "FaultHandlerOverride",
    ][k]
}
const N_DECODERS: usize = 18;

/// returns Ok(true) if accepted
fn run_decoder(k: usize, b: &[u8]) -> Result<bool, ()> {
    let mut s = b;
    let r = catch_unwind(AssertUnwindSafe(|| match k {
        0 => PDU::decode(&mut s).is_ok(),
        1 => PDUHeader::decode(&mut s).is_ok(),
        2 => Operations::decode(&mut s, FileSizeFlag::Small).is_ok(),
        3 => Operations::decode(&mut s, FileSizeFlag::Large).is_ok(),
        4 => <FileDataPDU as SegmentEncode>::decode(&mut s, SegmentedData::NotPresent, FileSizeFlag::Small).is_ok(),
        5 => <FileDataPDU as SegmentEncode>::decode(&mut s, SegmentedData::Present, FileSizeFlag::Large).is_ok(),
        6 => MetadataTLV::decode(&mut s).is_ok(),
        7 => FileStoreRequest::decode(&mut s).is_ok(),
        8 => FileStoreResponse::decode(&mut s).is_ok(),
        9 => VariableID::decode(&mut s).is_ok(),
        10 => UserOperation::decode(&mut s).is_ok(),
        11 => StatusReport::decode(&mut s).is_ok(),
        12 => Finished::decode(&mut s).is_ok(),
        13 => EndOfFile::decode(&mut s, FileSizeFlag::Small).is_ok(),
        14 => MetadataPDU::decode(&mut s, FileSizeFlag::Small).is_ok(),
        15 => NegativeAcknowledgmentPDU::decode(&mut s, FileSizeFlag::Large).is_ok(),
        16 => PositiveAcknowledgePDU::decode(&mut s).is_ok(),
        _ => FaultHandlerOverride::decode(&mut s).is_ok(),
    }));
    r.map_err(|_| ())
}

/// Describe the panic cause class of an input for the finding key: which decoder and the leading
/// structure (first byte flags for a PDU).
fn c06_check_input(rep: &mut Report, case: &str, family: &str, b: &[u8]) {
    for k in 0..N_DECODERS {
        // per-type decoders only on short inputs and on the PDU families' payload part
        if k != 0 && b.len() > 4096 {
            continue;
        }
        rep.eval();
        let t0 = std::time::Instant::now();
        let (r, st) = alloc::measure(|| run_decoder(k, b));
        let el = t0.elapsed();
        rep.count(&format!("decodes:{}", dec_name(k)));
        match r {
            Err(()) => {
                rep.violate(
                    "decode-panic",
                    format!("{}:panic", dec_name(k)),
                    case,
                    format!("{}::decode panicked on {} input {}", dec_name(k), family, short(&hex(b))),
                );
            }
            Ok(acc) => {
                if acc {
                    rep.count(&format!("accepted:{}", dec_name(k)));
                }
            }
        }
        if st.max_request > MAX_REQ || st.peak_live > MAX_PEAK {
            rep.violate(
                "decode-alloc",
                format!("{}:alloc", dec_name(k)),
                case,
                format!(
                    "{}::decode allocated max_request={} peak_live={} on a {}-byte input {}",
                    dec_name(k),
                    st.max_request,
                    st.peak_live,
                    b.len(),
                    short(&hex(b))
                ),
            );
        }
        if st.peak_live > rep.get("max_peak_live_bytes") {
            rep.counters.insert("max_peak_live_bytes".into(), st.peak_live);
        }
        if st.max_request > rep.get("max_single_request_bytes") {
            rep.counters.insert("max_single_request_bytes".into(), st.max_request);
        }
        if el.as_millis() > 1000 {
            rep.inconclusive("decode call slower than 1 s wall (re-run alone)", case);
        }
    }
    // canonicality of what PDU::decode accepts
    let mut s = b;
    if let Ok(Ok(p)) = catch_unwind(AssertUnwindSafe(|| PDU::decode(&mut s))) {
        rep.eval();
        rep.count("canonical-checked");
        rep.nontrivial(fnv1a(b));
        let mut p2 = p.clone();
        p2.header.pdu_data_field_length = p2.payload.encoded_len(p2.header.large_file_flag);
        let r = catch_unwind(AssertUnwindSafe(|| {
            let e = p2.clone().encode();
            let mut sl = e.as_slice();
            PDU::decode(&mut sl)
        }));
        let kind = match &p.payload {
            PDUPayload::FileData(_) => "FileData".to_string(),
            PDUPayload::Directive(op) => format!("{:?}", op.get_directive()),
        };
        match r {
            Err(_) => rep.violate(
                "canonical",
                format!("{}:reencode-panic", kind),
                case,
                format!("re-encoding/decoding the accepted PDU panicked; input {}", short(&hex(b))),
            ),
            Ok(Err(e)) => rep.violate(
                "canonical",
                format!("{}:reencode-rejected", kind),
                case,
                format!("accepted PDU {:?} re-encodes to something rejected: {}; input {}", short(&format!("{:?}", p2)), e, short(&hex(b))),
            ),
            Ok(Ok(p3)) => {
                if p3 != p2 {
                    let f = first_diff_field(&format!("{:?}", p2), &format!("{:?}", p3));
                    rep.violate(
                        "canonical",
                        format!("{}:not-canonical:{}", kind, f),
                        case,
                        format!("accepted {:?}, re-encode+decode gives {:?}; input {}", short(&format!("{:?}", p2)), short(&format!("{:?}", p3)), short(&hex(b))),
                    );
                }
            }
        }
    }
}

fn c06_case(rep: &mut Report, seed: u64, fam: u64, i: u64, sample: bool) {
    let mut rng = Rng::derive(seed, 600 + fam, i);
    let case = format!("C06/{}/{}/{}", seed, fam, i);
    let alpha: [u8; 24] = [
        0x00, 0x01, 0x02, 0x03, 0x04, 0x05, 0x06, 0x07, 0x08, 0x09, 0x0c, 0x10, 0x20, 0x22, 0x24, 0x26, 0x2a, 0x40,
        0x63, 0x66, 0x7f, 0x80, 0xfe, 0xff,
    ];
    let input: Vec<u8> = match fam {
        // random short strings
        0 => {
            let n = rng.usize(81);
            rng.bytes(n)
        }
        // structured prefixes over the biased alphabet
        1 => {
            let n = 1 + rng.usize(24);
            (0..n).map(|_| *rng.pick(&alpha)).collect()
        }
        // valid encoding, truncated
        2 => {
            let pdu = gen_pdu(&mut rng, header_bits(i), i / 3, 40);
            let e = pdu.encode();
            let k = rng.usize(e.len() + 1);
            e[..k].to_vec()
        }
        // valid encoding, one byte replaced
        3 => {
            let pdu = gen_pdu(&mut rng, header_bits(i), i / 5, 40);
            let mut e = pdu.encode();
            let k = rng.usize(e.len());
            e[k] = if rng.bool() { *rng.pick(&alpha) } else { rng.byte() };
            e
        }
        // valid encoding, length / flag fields forced to boundary values
        4 => {
            let pdu = gen_pdu(&mut rng, header_bits(i), i / 7, 40);
            let mut e = pdu.encode();
            let v: u16 = *rng.pick(&[0u16, 1, 2, 3, 255, 256, 65533, 65534, 65535]);
            match rng.below(4) {
                0 => {
                    e[1] = (v >> 8) as u8;
                    e[2] = v as u8;
                }
                1 => {
                    e[0] ^= 1 << rng.below(8);
                    e[1] = (v >> 8) as u8;
                    e[2] = v as u8;
                }
                2 => {
                    e[3] = rng.byte();
                }
                _ => {
                    // force some later byte (an LV/TLV length) to a boundary
                    let k = 4 + rng.usize(e.len().saturating_sub(4).max(1));
                    if k < e.len() {
                        e[k] = *rng.pick(&[0u8, 1, 2, 254, 255]);
                    }
                }
            }
            e
        }
        // ~64 KiB inputs: header announcing the maximum, random or structured body
        5 => {
            let mut e = vec![0u8; 65535 + 32];
            let body = rng.bytes(64);
            for (j, x) in e.iter_mut().enumerate() {
                *x = body[j % 64];
            }
            e[0] = rng.byte();
            e[1] = 0xff;
            e[2] = *rng.pick(&[0xffu8, 0xfe, 0xfd, 0xf0]);
            e[3] = *rng.pick(&[0x00u8, 0x11, 0x33, 0x77, 0x13]);
            let head = gen_pdu(&mut rng, header_bits(i), i, 16).encode();
            let n = head.len().min(40);
            if rng.bool() {
                e[4..4 + n.saturating_sub(4)].copy_from_slice(&head[4..n.max(4)]);
            }
            e
        }
        // every error-condition directive with a fault-location TLV whose length byte is hostile
        _ => {
            let b = header_bits(i);
            let bits = HeaderBits { file_data: false, ..b };
            let pdu = gen_pdu(&mut rng, bits, i % 2, 8); // EoF / Finished
            let mut e = pdu.encode();
            let crc = if bits.crc { 2 } else { 0 };
            if e.len() > crc + 3 {
                let k = e.len() - crc - 1 - rng.usize(3);
                e[k] = *rng.pick(&[0xffu8, 0xfe, 0x00, 0x07, 0x08]);
            }
            e
        }
    };
    if sample {
        rep.sample(
            J::obj()
                .set("case", J::s(&case))
                .set("family", J::U(fam))
                .set("len", J::U(input.len() as u64))
                .set("input_hex", J::s(short(&hex(&input)))),
        );
    }
    rep.count(&format!("inputs:family{}", fam));
    c06_check_input(rep, &case, &format!("family{}", fam), &input);
}

pub fn run_c06(tier: &str, seed: u64, replay: Option<&str>) -> (Meta, Report) {
    let meta = Meta {
        property: "C06",
        level: "exploration",
        rule: "input families: 0 random 0..80 bytes; 1 prefixes <=24 bytes over a flag/length-biased alphabet; 2 every-position truncations of valid encodings (sampled); 3 single-byte replacements of valid encodings; 4 length/flag fields forced to 0,1,2,255,65533..65535; 5 ~64 KiB inputs announcing the maximum length; 6 EoF/Finished with hostile TLV length bytes. Each input goes through PDU::decode and 17 per-type decoders under catch_unwind with a per-call counting allocator; every accepted PDU is re-encoded with its length recomputed and decoded again. distinct_nontrivial = distinct inputs accepted by PDU::decode (canonicality antecedent)".into(),
        exhaustive: false,
        assumptions: vec![
            "allocation bound per decode call: largest single request <= 256 KiB and peak live <= 1 MiB (the 64 KiB a length field can announce, times the constant factors of Vec doubling, the parsed copy and the CRC re-encoding; an attacker-sized allocation would be far beyond)".into(),
            "build profile: optimised with overflow-checks and debug-assertions on (the arithmetic semantics of the test profile)".into(),
            "a call slower than 1 s wall is reported inconclusive, a hung call is caught by the pool watchdog".into(),
        ],
        require: vec![("canonical-checked".into(), 100), ("accepted:PDU".into(), 100)],
        extra: vec![],
    };
    std::panic::set_hook(Box::new(|_| {}));
    if let Some(case) = replay {
        let parts: Vec<&str> = case.split('/').collect();
        let mut rep = Report::new();
        rep.max_samples = 10;
        if parts[1] == "hex" {
            let b = unhex(parts[2]).unwrap_or_default();
            c06_check_input(&mut rep, case, "hex", &b);
        } else {
            c06_case(&mut rep, parts[1].parse().unwrap(), parts[2].parse().unwrap(), parts[3].parse().unwrap(), true);
        }
        return (meta, rep);
    }
    let per_family: usize = if tier == "thorough" { 600_000 } else { 40_000 };
    let big: usize = if tier == "thorough" { 3_000 } else { 300 };
    let n = per_family * 6 + big;
    let reps = run_pool(
        n,
        crate::util::n_threads(),
        120,
        |_| Report::new(),
        move |i| {
            let (fam, idx) = c06_index(i, per_family);
            format!("C06/{}/{}/{}", seed, fam, idx)
        },
        move |rep, i| {
            let (fam, idx) = c06_index(i, per_family);
            c06_case(rep, seed, fam, idx, i % 30_011 == 3)
        },
    );
    let mut rep = Report::new();
    for r in reps {
        // max-style counters must be merged with max, not sum
        let mp = r.get("max_peak_live_bytes");
        let mr = r.get("max_single_request_bytes");
        let cur_p = rep.get("max_peak_live_bytes");
        let cur_r = rep.get("max_single_request_bytes");
        rep.merge(r);
        rep.counters.insert("max_peak_live_bytes".into(), mp.max(cur_p));
        rep.counters.insert("max_single_request_bytes".into(), mr.max(cur_r));
    }
    (meta, rep)
}
fn c06_index(i: usize, per_family: usize) -> (u64, u64) {
    if i < per_family * 6 {
        let fam = i / per_family;
        let idx = i % per_family;
        // family 5 (64 KiB) is the tail block; map 0..5 -> 0,1,2,3,4,6
        let fam = if fam == 5 { 6 } else { fam };
        (fam as u64, idx as u64)
    } else {
        (5, (i - per_family * 6) as u64)
    }
}

// =============================================================================================
// C15

fn c15_try(rep: &mut Report, case: &str, name: &str, orig: &PDU, e: &[u8], mask: &[(usize, u8)], class: &str) {
    let mut m = e.to_vec();
    for (pos, x) in mask {
        m[*pos] ^= *x;
    }
    rep.eval();
    let mut s = m.as_slice();
    let r = catch_unwind(AssertUnwindSafe(|| PDU::decode(&mut s)));
    match r {
        Err(_) => {
            // a panic is C06's business; here it is neither acceptance nor rejection
            rep.count("decode-panicked");
        }
        Ok(Err(_)) => rep.count("rejected"),
        Ok(Ok(p)) => {
            if &p == orig {
                rep.count("accepted-as-original(spare bits)");
            } else {
                let kind = name.split('/').next().unwrap_or("");
                let f = first_diff_field(&format!("{:?}", orig), &format!("{:?}", p));
                rep.violate(
                    "crc-accepts-corruption",
                    format!("{}:{}:{}", kind, class, f),
                    case,
                    format!(
                        "{} corrupted by {} ({:?}) accepted as a different PDU: field {}; original {} corrupted {}",
                        name,
                        class,
                        mask,
                        f,
                        short(&hex(e)),
                        short(&hex(&m))
                    ),
                );
            }
        }
    }
}

/// The other half of the property: an unaltered CRC-carrying PDU is always accepted - for EVERY combination of
/// the header flags and id widths (shard j of 16) and every payload kind.
fn c15_accept_unit(rep: &mut Report, seed: u64, shard: usize, only: Option<&str>) {
    let case = format!("C15/{}/accept/{}", seed, shard);
    if let Some(o) = only {
        if o != case {
            return;
        }
    }
    let mut rng = Rng::derive(seed, 1515, shard as u64);
    let mut i = shard as u64;
    while i < N_HEADER_COMBOS {
        let mut bits = header_bits(i);
        i += 16;
        if bits.version != 1 {
            continue;
        }
        bits.crc = true;
        for kind in 0..N_OP_KINDS {
            let pdu = gen_pdu(&mut rng, bits, kind, 40);
            let e = pdu.clone().encode();
            rep.eval();
            let mut s = e.as_slice();
            match PDU::decode(&mut s) {
                Ok(p) if p == pdu => rep.count("unaltered-accepted:all-header-combinations"),
                other => {
                    let what = format!("file_data={} to_sender={} unack={} large={} seg_ctrl={} seg_meta={}", bits.file_data, bits.to_sender, bits.unack, bits.large, bits.seg_ctrl, bits.seg_meta);
                    rep.violate("crc-rejects-valid", format!("header-flags {}", what), &case, format!("unaltered PDU (id width {}, seq width {}, {}) with CRC not accepted as itself: {}; bytes {}", bits.id_w, bits.seq_w, what, short(&format!("{:?}", other)), hex(&e)))
                }
            }
        }
    }
    rep.nontrivial(fnv_mix(0xACCE97, shard as u64));
}

fn c15_unit(rep: &mut Report, seed: u64, tier: &str, unit: usize, only: Option<&str>) {
    // unit = (corpus index, layer)
    let mut rng = Rng::derive(seed, 15, 0);
    let corp = corpus(&mut rng, true);
    if unit >= corp.len() * 4 {
        return c15_accept_unit(rep, seed, unit - corp.len() * 4, only);
    }
    let ci = unit % corp.len();
    let layer = unit / corp.len();
    let (name, pdu) = &corp[ci];
    let e = pdu.clone().encode();
    let case = format!("C15/{}/{}/{}", seed, ci, layer);
    if let Some(o) = only {
        if o != case {
            return;
        }
    }
    let nbits = e.len() * 8;
    let first = 32usize;
    let bit = |b: usize| -> (usize, u8) { (b / 8, 0x80u8 >> (b % 8)) };
    match layer {
        0 => {
            // unaltered accepted + every single bit
            rep.eval();
            let mut s = e.as_slice();
            match PDU::decode(&mut s) {
                Ok(p) if &p == pdu => rep.count("unaltered-accepted"),
                other => rep.violate(
                    "crc-rejects-valid",
                    format!("{}:unaltered", name.split('/').next().unwrap_or("")),
                    &case,
                    format!("unaltered {} not accepted: {:?}", name, short(&format!("{:?}", other))),
                ),
            }
            for b in first..nbits {
                c15_try(rep, &case, name, pdu, &e, &[bit(b)], "single");
            }
            rep.nontrivial(fnv_mix(fnv1a(name.as_bytes()), 0));
            rep.add("patterns:single", (nbits - first) as u64);
        }
        1 => {
            // every pair (whole PDU if <= 64 bytes, else window of 128 bits)
            let window = if e.len() <= 64 { nbits } else { 128 };
            let mut n = 0u64;
            for a in first..nbits {
                let hi = (a + window).min(nbits);
                for b in a + 1..hi {
                    c15_try(rep, &case, name, pdu, &e, &[bit(a), bit(b)], "pair");
                    n += 1;
                }
            }
            rep.nontrivial(fnv_mix(fnv1a(name.as_bytes()), 1));
            rep.add("patterns:pair", n);
        }
        2 => {
            // bursts: both end bits set, every interior pattern, every position
            let full_upto = if tier == "thorough" { 13 } else { 9 };
            let mut n = 0u64;
            for len in 2..=16usize {
                let interior = len - 2;
                let total: u64 = 1 << interior;
                let sampled = len > full_upto;
                let count = if sampled { 64.min(total) } else { total };
                for pos in first..=nbits.saturating_sub(len) {
                    for c in 0..count {
                        let pat = if sampled { rng.next_u64() & (total - 1) } else { c };
                        let mut mask = vec![bit(pos), bit(pos + len - 1)];
                        for j in 0..interior {
                            if (pat >> j) & 1 == 1 {
                                mask.push(bit(pos + 1 + j));
                            }
                        }
                        c15_try(rep, &case, name, pdu, &e, &mask, "burst");
                        n += 1;
                    }
                }
            }
            rep.nontrivial(fnv_mix(fnv1a(name.as_bytes()), 2));
            rep.add("patterns:burst", n);
        }
        _ => {
            // random weight-3 patterns (every sub-pattern of weight 1..3 is detectable by the CRC)
            let n = if tier == "thorough" { 200_000 } else { 20_000 };
            for _ in 0..n {
                let a = first + rng.usize(nbits - first);
                let b = first + rng.usize(nbits - first);
                let c = first + rng.usize(nbits - first);
                if a == b || b == c || a == c {
                    continue;
                }
                c15_try(rep, &case, name, pdu, &e, &[bit(a), bit(b), bit(c)], "triple");
            }
            rep.nontrivial(fnv_mix(fnv1a(name.as_bytes()), 3));
            rep.add("patterns:triple", n as u64);
        }
    }
}

pub fn run_c15(tier: &str, seed: u64, replay: Option<&str>) -> (Meta, Report) {
    std::panic::set_hook(Box::new(|_| {}));
    let mut rng = Rng::derive(seed, 15, 0);
    let corp = corpus(&mut rng, true);
    let ncorp = corp.len();
    let meta = Meta {
        property: "C15",
        level: "fault_enumeration",
        rule: format!("corpus of {} CRC-carrying PDUs (9 payload kinds x small/large x 4 id/seq width combinations, seeded content); per PDU four layers: every single bit >= bit 32; every pair of bits (whole PDU when <= 64 bytes, else within a 128-bit window); every burst of length 2..16 with both end bits set at every position (interior patterns complete up to length {} and 64 sampled per position above); sampled weight-3 patterns; plus: an unaltered CRC-carrying PDU is accepted as itself for every combination of header flags (direction, mode, large, segmentation control, segment metadata, file data / directive) x 16 id/sequence width pairs x 7 directive kinds. distinct_nontrivial = (PDU, layer) units completed", ncorp, if tier == "thorough" { 13 } else { 9 }),
        exhaustive: true,
        assumptions: vec![
            "bits 0..31 (the four fixed header octets: flags, length, id widths) are not altered, as in the statement".into(),
            "a corrupted PDU that decodes to a value equal to the original counts as accepted-as-original (only spare bits changed)".into(),
        ],
        require: vec![("unaltered-accepted".into(), ncorp as u64), ("rejected".into(), 1000), ("unaltered-accepted:all-header-combinations".into(), 10_000)],
        extra: vec![("corpus".into(), J::A(corp.iter().take(12).map(|(n, p)| J::obj().set("name", J::s(n)).set("hex", J::s(hex(&p.clone().encode())))).collect()))],
    };
    let units = ncorp * 4 + 16;
    let tier_s = tier.to_string();
    let only = replay.map(|s| s.to_string());
    let reps = run_pool(
        units,
        crate::util::n_threads(),
        1800,
        |_| Report::new(),
        move |i| format!("C15/{}/{}/{}", seed, i % ncorp, i / ncorp),
        move |rep, i| c15_unit(rep, seed, &tier_s, i, only.as_deref()),
    );
    let mut rep = Report::new();
    for r in reps {
        rep.merge(r);
    }
    for (n, p) in corp.iter().take(3) {
        rep.sample(J::obj().set("pdu", J::s(n)).set("encoding", J::s(hex(&p.clone().encode()))).set("patterns", J::s("single/pair/burst/triple masks over bits >= 32")));
    }
    (meta, rep)
}
