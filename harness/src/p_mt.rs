//! C11, real-time lane: two real daemons on a *multi-thread* tokio runtime with the real clock, a
//! loss-free in-memory link and a slow receiving filestore. The virtual-time simulator is
//! cooperative (one thread), so a consumer can never fall behind a producer there; this lane
//! exercises back-pressure between the daemon and its transactions under real parallelism.
use crate::report::{Meta, Report};
use crate::util::{fnv1a, Rng, J};
use async_trait::async_trait;
use camino::{Utf8Path, Utf8PathBuf};
use cfdp_core::daemon::{EntityConfig, Indication, PutRequest, UserPrimitive};
use cfdp_core::filestore::{FileStore, FileStoreResult, NativeFileStore};
use cfdp_core::pdu::*;
use cfdp_core::transaction::TransactionID;
use cfdp_daemon::transport::PDUTransport;
use cfdp_daemon::Daemon;
use std::collections::HashMap;
use std::fs::{File, OpenOptions};
use std::io::Error as IoError;
use std::sync::{Arc, Mutex};
use std::time::{Duration, Instant};
use tokio::sync::mpsc::{unbounded_channel, UnboundedReceiver, UnboundedSender};

/// NativeFileStore whose staging-file creation is slow (a busy disk).
pub struct SlowStore {
    inner: NativeFileStore,
    delay_ms: u64,
}
impl FileStore for SlowStore {
    fn get_native_path<P: AsRef<Utf8Path>>(&self, path: P) -> Utf8PathBuf {
        self.inner.get_native_path(path)
    }
    fn create_file<P: AsRef<Utf8Path>>(&self, path: P) -> FileStoreResult<()> {
        self.inner.create_file(path)
    }
    fn delete_file<P: AsRef<Utf8Path>>(&self, path: P) -> FileStoreResult<()> {
        self.inner.delete_file(path)
    }
    fn rename_file<P: AsRef<Utf8Path>, U: AsRef<Utf8Path>>(&self, from: P, to: U) -> FileStoreResult<()> {
        self.inner.rename_file(from, to)
    }
    fn append_file<P: AsRef<Utf8Path>, U: AsRef<Utf8Path>>(&self, path1: P, path2: U) -> FileStoreResult<()> {
        self.inner.append_file(path1, path2)
    }
    fn replace_file<P: AsRef<Utf8Path>, U: AsRef<Utf8Path>>(&self, path1: P, path2: U) -> FileStoreResult<()> {
        self.inner.replace_file(path1, path2)
    }
    fn create_directory<P: AsRef<Utf8Path>>(&self, path: P) -> FileStoreResult<()> {
        self.inner.create_directory(path)
    }
    fn remove_directory<P: AsRef<Utf8Path>>(&self, path: P) -> FileStoreResult<()> {
        self.inner.remove_directory(path)
    }
    fn list_directory<P: AsRef<Utf8Path>>(&self, path: P) -> FileStoreResult<String> {
        self.inner.list_directory(path)
    }
    fn open<P: AsRef<Utf8Path>>(&self, path: P, options: &mut OpenOptions) -> FileStoreResult<File> {
        self.inner.open(path, options)
    }
    fn open_tempfile(&self) -> FileStoreResult<File> {
        std::thread::sleep(Duration::from_millis(self.delay_ms));
        self.inner.open_tempfile()
    }
    fn get_size<P: AsRef<Utf8Path>>(&self, path: P) -> FileStoreResult<u64> {
        self.inner.get_size(path)
    }
}

struct MtTransport {
    peer: UnboundedSender<Vec<u8>>,
    inbox: UnboundedReceiver<Vec<u8>>,
    sent: Arc<Mutex<u64>>,
}
#[async_trait]
impl PDUTransport for MtTransport {
    async fn request(&mut self, _destination: VariableID, pdu: PDU) -> Result<(), IoError> {
        *self.sent.lock().unwrap() += 1;
        let _ = self.peer.send(pdu.encode());
        Ok(())
    }
    async fn receive(&mut self) -> Result<PDU, IoError> {
        match self.inbox.recv().await {
            Some(b) => PDU::decode(&mut b.as_slice()).map_err(|e| IoError::new(std::io::ErrorKind::InvalidData, e.to_string())),
            None => std::future::pending().await,
        }
    }
}

struct MtOutcome {
    inds: Vec<(usize, Indication)>,
    ids: Vec<Option<TransactionID>>,
    dests: Vec<Option<Vec<u8>>>,
    pdus: u64,
    wall_ms: u64,
    timed_out: bool,
    max_lag_ms: u64,
}

struct MtTransfer {
    src: usize,
    mode: TransmissionMode,
    content: Vec<u8>,
}

fn run_mt(scratch: &str, cfg: EntityConfig, transfers: &[MtTransfer], slow_ms: u64, linger_ms: u64) -> MtOutcome {
    let roots: Vec<String> = (0..2).map(|i| format!("{}/m{}", scratch, i)).collect();
    for r in &roots {
        let _ = std::fs::remove_dir_all(r);
        std::fs::create_dir_all(r).unwrap();
    }
    for (k, t) in transfers.iter().enumerate() {
        std::fs::write(format!("{}/src{}.bin", roots[t.src], k), &t.content).unwrap();
    }
    let rt = tokio::runtime::Builder::new_multi_thread().worker_threads(4).enable_all().build().expect("runtime");
    let t0 = Instant::now();
    // stall detector: an OS thread that sleeps 25 ms at a time and records by how much it overslept. The
    // verdicts of this lane depend on the wall clock; a run during which the machine stalled is not judged.
    let stop = Arc::new(std::sync::atomic::AtomicBool::new(false));
    let max_lag = Arc::new(std::sync::atomic::AtomicU64::new(0));
    let lag_thread = {
        let (stop, max_lag) = (stop.clone(), max_lag.clone());
        std::thread::spawn(move || {
            while !stop.load(std::sync::atomic::Ordering::Relaxed) {
                let a = Instant::now();
                std::thread::sleep(Duration::from_millis(25));
                let over = a.elapsed().as_millis().saturating_sub(25) as u64;
                max_lag.fetch_max(over, std::sync::atomic::Ordering::Relaxed);
            }
        })
    };
    let sent = Arc::new(Mutex::new(0u64));
    let inds: Arc<Mutex<Vec<(usize, Indication)>>> = Arc::new(Mutex::new(vec![]));
    let n_tr = transfers.len();
    let (ids, timed_out) = rt.block_on(async {
        let (a_tx, a_rx) = unbounded_channel::<Vec<u8>>();
        let (b_tx, b_rx) = unbounded_channel::<Vec<u8>>();
        let mut prims = vec![];
        let mut rxs = vec![Some(a_rx), Some(b_rx)];
        let txs = [b_tx, a_tx]; // entity 0 sends into b's inbox
        for i in 0..2usize {
            let (ptx, prx) = tokio::sync::mpsc::channel(1024);
            prims.push(ptx);
            let (itx, mut irx) = tokio::sync::mpsc::channel(100_000);
            let mut tmap: HashMap<Vec<EntityID>, Box<dyn PDUTransport + Send>> = HashMap::new();
            tmap.insert(vec![VariableID::from((2 - i) as u16)], Box::new(MtTransport { peer: txs[i].clone(), inbox: rxs[i].take().unwrap(), sent: sent.clone() }));
            let store = Arc::new(SlowStore { inner: NativeFileStore::new(Utf8PathBuf::from(roots[i].clone())), delay_ms: if i == 1 { slow_ms } else { 0 } });
            let mut daemon = Daemon::new(VariableID::from((i + 1) as u16), VariableID::from(1u16), tmap, store, HashMap::new(), cfg.clone(), prx, itx);
            tokio::spawn(async move {
                let _ = daemon.manage_transactions().await;
            });
            let sink = inds.clone();
            tokio::spawn(async move {
                while let Some(ind) = irx.recv().await {
                    if !matches!(ind, Indication::FileSegmentRecv(_) | Indication::Report(_)) {
                        sink.lock().unwrap().push((i, ind));
                    }
                }
            });
        }
        let mut ids = vec![];
        for (k, t) in transfers.iter().enumerate() {
            let (otx, orx) = tokio::sync::oneshot::channel();
            let req = PutRequest {
                source_filename: format!("src{}.bin", k).into(),
                destination_filename: format!("dst{}.bin", k).into(),
                destination_entity_id: VariableID::from((2 - t.src) as u16),
                transmission_mode: t.mode,
                filestore_requests: vec![],
                message_to_user: vec![],
            };
            let _ = prims[t.src].send(UserPrimitive::Put(req, otx)).await;
            ids.push(tokio::time::timeout(Duration::from_secs(10), orx).await.ok().and_then(|r| r.ok()));
        }
        // wait until every transfer has a Finished indication at its receiver, then linger
        let deadline = Instant::now() + Duration::from_secs(40);
        let mut timed_out = false;
        loop {
            let done = {
                let g = inds.lock().unwrap();
                (0..n_tr).all(|k| ids[k].map(|id| g.iter().any(|(e, ind)| *e == 1 - transfers[k].src && matches!(ind, Indication::Finished(f) if f.id == id))).unwrap_or(true))
            };
            if done {
                break;
            }
            if Instant::now() > deadline {
                timed_out = true;
                break;
            }
            tokio::time::sleep(Duration::from_millis(20)).await;
        }
        tokio::time::sleep(Duration::from_millis(linger_ms)).await;
        (ids, timed_out)
    });
    rt.shutdown_timeout(Duration::from_millis(200));
    stop.store(true, std::sync::atomic::Ordering::Relaxed);
    let _ = lag_thread.join();
    let max_lag_ms = max_lag.load(std::sync::atomic::Ordering::Relaxed);
    let dests = (0..n_tr).map(|k| std::fs::read(format!("{}/dst{}.bin", roots[1 - transfers[k].src], k)).ok()).collect();
    let pdus = *sent.lock().unwrap();
    let out = MtOutcome { inds: std::mem::take(&mut *inds.lock().unwrap()), ids, dests, pdus, wall_ms: t0.elapsed().as_millis() as u64, timed_out, max_lag_ms };
    for r in &roots {
        let _ = std::fs::remove_dir_all(r);
    }
    out
}

pub fn run_c11mt(tier: &str, seed: u64, replay: Option<&str>) -> (Meta, Report) {
    let meta = Meta {
        property: "C11",
        level: "exploration",
        rule: "real-time lane: two real daemons on a 4-worker multi-thread tokio runtime, real clock, loss-free in-memory link, receiving filestore whose staging-file creation blocks for 100-400 ms; one file of 150-600 segments plus two small transfers (one in the opposite direction, one unacknowledged) started together, so that the daemon forwards PDUs faster than the receive transaction consumes them. Oracle on outcomes only: every Put answered, exactly one Finished per transaction and entity, success with the transfer's own bytes, no Fault / Abandon indication on a loss-free link. distinct_nontrivial = distinct (sizes, delay) scenarios completed.".into(),
        exhaustive: false,
        assumptions: vec!["a scenario that does not finish within 40 s of wall time is inconclusive, not a violation".into(), "timers are 4 s x limit 2: a fault on this loss-free link would need an 8 s stall of the machine; a run during which an OS thread sleeping 25 ms at a time overslept by more than 1 s is repeated (3 attempts) and otherwise inconclusive".into()],
        require: vec![("c11mt_scenarios_completed".into(), 3)],
        extra: vec![],
    };
    let n: usize = if tier == "thorough" { 48 } else { 8 };
    let only: Option<usize> = replay.and_then(|r| r.rsplit(':').next().and_then(|x| x.parse().ok()));
    let scratch = crate::util::scratch("c11mt");
    let threads = 4usize;
    let next = Arc::new(Mutex::new(0usize));
    let mut handles = vec![];
    for w in 0..threads {
        let next = next.clone();
        let scratch = format!("{}/w{}", scratch, w);
        handles.push(std::thread::spawn(move || {
            let mut rep = Report::new();
            loop {
                let i = {
                    let mut g = next.lock().unwrap();
                    let i = *g;
                    *g += 1;
                    i
                };
                if i >= n {
                    break;
                }
                if let Some(o) = only {
                    if o != i {
                        continue;
                    }
                }
                let mut rng = Rng::derive(seed, 1111, i as u64);
                let seg = *rng.pick(&[16u16, 32]);
                let nseg = 150 + rng.usize(450);
                let slow = 100 + rng.below(300);
                let mut cfg = crate::sim::default_config();
                cfg.file_size_segment = seg;
                cfg.inactivity_timeout = 4;
                cfg.ack_timeout = 4;
                cfg.nak_timeout = 4;
                cfg.default_transaction_max_count = 2;
                let mk = |rng: &mut Rng, len: usize, tag: u8| -> Vec<u8> {
                    let mut c = rng.bytes(len);
                    for (j, b) in c.iter_mut().enumerate() {
                        if j % 16 == 0 {
                            *b = tag;
                        }
                    }
                    c
                };
                let transfers = vec![
                    MtTransfer { src: 0, mode: TransmissionMode::Acknowledged, content: mk(&mut rng, nseg * seg as usize - 3, 1) },
                    MtTransfer { src: 1, mode: TransmissionMode::Acknowledged, content: mk(&mut rng, 3 * seg as usize + 1, 2) },
                    MtTransfer { src: 0, mode: TransmissionMode::Unacknowledged, content: mk(&mut rng, 2 * seg as usize, 3) },
                ];
                let case = format!("C11mt:mt:{}:{}", i, seed);
                // a run during which the machine stalled for more than a second (or that did not finish in
                // time) is repeated, up to three times, before it is given up as inconclusive
                let mut out = run_mt(&scratch, cfg.clone(), &transfers, slow, 9_000);
                let mut attempts = 1;
                while (out.timed_out || out.max_lag_ms > 1000) && attempts < 3 {
                    rep.count("c11mt_runs_repeated(machine stalled)");
                    out = run_mt(&scratch, cfg.clone(), &transfers, slow, 9_000);
                    attempts += 1;
                }
                rep.eval();
                rep.add("c11mt_max_scheduling_lag_ms(sum)", out.max_lag_ms);
                rep.add("c11mt_pdus_exchanged", out.pdus);
                let desc = format!("long file {} segments of {} bytes, receiver staging-file delay {} ms, {} PDUs, {} ms wall", nseg, seg, slow, out.pdus, out.wall_ms);
                let trace = |out: &MtOutcome| -> String {
                    let mut s = format!("case {} :: {}\n", case, desc);
                    for (e, ind) in &out.inds {
                        let l = match ind {
                            Indication::Finished(f) => format!("e{} Finished {} cond={:?} {:?} {:?}", e, f.id, f.report.condition, f.delivery_code, f.file_status),
                            Indication::Fault(f) => format!("e{} Fault {} {:?} progress={}", e, f.id, f.condition, f.progress),
                            Indication::Abandon(f) => format!("e{} Abandon {} {:?}", e, f.id, f.condition),
                            other => format!("e{} {:?}", e, crate::sim::ind_kind(other)),
                        };
                        s.push_str(&l);
                        s.push('\n');
                    }
                    s
                };
                if out.timed_out {
                    rep.inconclusive("scenario did not finish within 40 s of wall time", &case);
                    continue;
                }
                if out.max_lag_ms > 1000 {
                    rep.inconclusive("the machine stalled for more than 1 s during the run (wall-clock verdicts not taken)", &case);
                    continue;
                }
                rep.count("c11mt_scenarios_completed");
                for (k, t) in transfers.iter().enumerate() {
                    let id = match out.ids[k] {
                        Some(i) => i,
                        None => {
                            rep.violate("put-not-answered", "mt".into(), &case, trace(&out));
                            continue;
                        }
                    };
                    let rcv = 1 - t.src;
                    let fins: Vec<_> = out.inds.iter().filter(|(e, ind)| *e == rcv && matches!(ind, Indication::Finished(f) if f.id == id)).collect();
                    let ok = fins.iter().filter(|(_, ind)| matches!(ind, Indication::Finished(f) if crate::sim::is_success(f))).count();
                    if fins.len() != 1 || ok != 1 {
                        rep.violate("mt-outcome-wrong", format!("transfer={} finished-indications={} successes={}", ["long", "reverse", "unack"][k], fins.len().min(3), ok.min(3)), &case, trace(&out));
                    }
                    if out.dests[k].as_deref() != Some(t.content.as_slice()) {
                        rep.violate("mt-wrong-file", format!("transfer={}", ["long", "reverse", "unack"][k]), &case, trace(&out));
                    }
                    rep.count("c11mt_transfers_judged");
                }
                let faults = out.inds.iter().filter(|(_, ind)| matches!(ind, Indication::Fault(_) | Indication::Abandon(_))).count();
                if faults > 0 {
                    let mut conds: Vec<String> = out.inds.iter().filter_map(|(e, ind)| match ind {
                        Indication::Fault(f) => Some(format!("e{}:{:?}", e, f.condition)),
                        _ => None,
                    }).collect();
                    conds.sort();
                    conds.dedup();
                    rep.violate("mt-fault-on-loss-free-link", format!("{:?}", conds), &case, trace(&out));
                }
                rep.nontrivial(fnv1a(desc.split(',').take(2).collect::<String>().as_bytes()));
                rep.sample(J::obj().set("case", J::s(&case)).set("scenario", J::s(&desc)).set("indications", J::U(out.inds.len() as u64)));
            }
            rep
        }));
    }
    let mut rep = Report::new();
    for h in handles {
        rep.merge(h.join().unwrap());
    }
    let _ = std::fs::remove_dir_all(&scratch);
    (meta, rep)
}
