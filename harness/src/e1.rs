//! E1 common layer: cases (scenario + what the oracles need to know about it), digests of a run
//! log, fault-plan generators and the worker-pool runner shared by the simulator properties.
use crate::report::Report;
use crate::sim::*;
use crate::simgen::*;
use crate::util::{fnv1a, fnv_mix, run_pool, Rng, J};
use cfdp_core::daemon::{FaultIndication, FinishedIndication, Indication};
use cfdp_core::pdu::*;
use cfdp_core::transaction::TransactionID;
use cfdp_daemon::verif::{TaskEvent, TaskKind};

/// What the oracles know about a scenario (the scenario itself is consumed by the run).
#[derive(Clone)]
pub struct Info {
    pub case: String,
    pub desc: String,
    /// configuration per entity
    pub knobs: Vec<Knobs>,
    pub transfers: Vec<TransferSpec>,
    pub rules: Vec<Rule>,
    pub scripts: Vec<Script>,
    /// faults are inside the C02 hypothesis (bounded loss/dup/delay, acknowledged mode)
    pub hyp: bool,
    pub max_delay_ms: u64,
    pub latency_ms: u64,
    pub observe_ms: u64,
    pub scripted: Vec<bool>,
    /// transaction id used by a scripted sender (there is no Put to learn it from)
    pub fixed_id: Option<TransactionID>,
    /// transfers whose Put was fire-and-forget (no id is learnt from a reply)
    pub forgotten: Vec<usize>,
}
pub struct Case {
    pub sc: Scenario,
    pub info: Info,
}
impl Case {
    pub fn from(sc: Scenario, k: &Knobs, desc: String, hyp: bool) -> Case {
        let max_delay_ms = sc
            .rules
            .iter()
            .map(|r| match r.a {
                Action::Delay(d) => d,
                Action::Dup(n, sp) => n as u64 * sp,
                _ => 0,
            })
            .max()
            .unwrap_or(0);
        let info = Info {
            case: sc.case.clone(),
            desc,
            knobs: sc.entities.iter().map(|_| k.clone()).collect(),
            transfers: sc.transfers.clone(),
            rules: sc.rules.clone(),
            scripts: sc.scripts.clone(),
            hyp,
            max_delay_ms,
            latency_ms: sc.latency_ms,
            observe_ms: sc.observe_ms,
            scripted: sc.entities.iter().map(|e| e.scripted).collect(),
            fixed_id: None,
            forgotten: sc.forget_puts.clone(),
        };
        Case { sc, info }
    }
    /// call after editing sc.rules / sc.scripts / sc.transfers
    pub fn sync(&mut self) {
        self.info.transfers = self.sc.transfers.clone();
        self.info.rules = self.sc.rules.clone();
        self.info.scripts = self.sc.scripts.clone();
        self.info.observe_ms = self.sc.observe_ms;
        self.info.latency_ms = self.sc.latency_ms;
        self.info.max_delay_ms = self
            .sc
            .rules
            .iter()
            .map(|r| match r.a {
                Action::Delay(d) => d,
                Action::Dup(n, sp) => n as u64 * sp,
                _ => 0,
            })
            .max()
            .unwrap_or(0);
    }
}

pub fn pdu_tid(p: &PDU) -> TransactionID {
    TransactionID(p.header.source_entity_id, p.header.transaction_sequence_number)
}

/// Termination bound in microseconds for entity `e` of a case.
pub fn bound_us(info: &Info, e: Ent) -> u64 {
    bound_ms(&info.knobs[e].config(), info.max_delay_ms + info.latency_ms + 100) * 1000
}

// ------------------------------------------------------------------------------------ digest

#[derive(Clone, Debug)]
pub struct TaskSpan {
    pub id: TransactionID,
    pub kind: TaskKind,
    pub start_us: u64,
    pub end_us: Option<u64>,
    pub spun: bool,
}

pub struct Dig<'a> {
    pub log: &'a RunLog,
    pub tasks: Vec<TaskSpan>,
}

impl<'a> Dig<'a> {
    pub fn new(log: &'a RunLog) -> Dig<'a> {
        let mut tasks: Vec<TaskSpan> = vec![];
        for r in &log.recs {
            if let Ev::Task(te) = &r.ev {
                match te {
                    TaskEvent::Start(id, k) => tasks.push(TaskSpan { id: *id, kind: *k, start_us: r.t_us, end_us: None, spun: false }),
                    TaskEvent::End(id, k) => {
                        if let Some(t) = tasks.iter_mut().find(|t| t.id == *id && t.kind == *k && t.end_us.is_none()) {
                            t.end_us = Some(r.t_us);
                        }
                    }
                    TaskEvent::Spin(id, k) => {
                        if let Some(t) = tasks.iter_mut().rev().find(|t| t.id == *id && t.kind == *k) {
                            t.spun = true;
                        }
                    }
                }
            }
        }
        Dig { log, tasks }
    }
    pub fn id(&self, tr: usize) -> Option<TransactionID> {
        self.log.ids.get(tr).cloned().flatten()
    }
    /// (log index, time, indication) of Finished indications at `ent` for `id`
    pub fn finished(&self, ent: Ent, id: TransactionID) -> Vec<(usize, u64, &'a FinishedIndication)> {
        let mut v = vec![];
        for (i, r) in self.log.recs.iter().enumerate() {
            if let Ev::Ind { ent: e, ind: Indication::Finished(f) } = &r.ev {
                if *e == ent && f.id == id {
                    v.push((i, r.t_us, f));
                }
            }
        }
        v
    }
    pub fn first_success(&self, ent: Ent, id: TransactionID) -> Option<(usize, u64)> {
        self.finished(ent, id).into_iter().find(|x| is_success(x.2)).map(|x| (x.0, x.1))
    }
    pub fn faults(&self, ent: Ent, id: TransactionID) -> Vec<(usize, u64, &'a FaultIndication)> {
        let mut v = vec![];
        for (i, r) in self.log.recs.iter().enumerate() {
            if let Ev::Ind { ent: e, ind: Indication::Fault(f) } = &r.ev {
                if *e == ent && f.id == id {
                    v.push((i, r.t_us, f));
                }
            }
        }
        v
    }
    pub fn abandons(&self, ent: Ent, id: TransactionID) -> Vec<(usize, u64, &'a FaultIndication)> {
        let mut v = vec![];
        for (i, r) in self.log.recs.iter().enumerate() {
            if let Ev::Ind { ent: e, ind: Indication::Abandon(f) } = &r.ev {
                if *e == ent && f.id == id {
                    v.push((i, r.t_us, f));
                }
            }
        }
        v
    }
    pub fn inds(&self, ent: Ent, id: TransactionID, k: IndKind) -> Vec<(usize, u64)> {
        let mut v = vec![];
        for (i, r) in self.log.recs.iter().enumerate() {
            if let Ev::Ind { ent: e, ind } = &r.ev {
                if *e == ent && ind_kind(ind) == k && ind_id(ind) == id {
                    v.push((i, r.t_us));
                }
            }
        }
        v
    }
    /// emissions of `ent` belonging to `id`: (log idx, time, emission idx, kind, pdu, fate)
    pub fn emits(&self, ent: Ent, id: TransactionID) -> Vec<(usize, u64, usize, Kind, &'a PDU, &'a str)> {
        let mut v = vec![];
        for (i, r) in self.log.recs.iter().enumerate() {
            if let Ev::Emit { ent: e, idx, kind, pdu, fate, .. } = &r.ev {
                if *e == ent && pdu_tid(pdu) == id {
                    v.push((i, r.t_us, *idx, *kind, pdu, fate.as_str()));
                }
            }
        }
        v
    }
    /// decodable arrivals at `ent` belonging to `id`
    pub fn arrivals(&self, ent: Ent, id: TransactionID) -> Vec<(usize, u64, Kind, &'a PDU)> {
        let mut v = vec![];
        for (i, r) in self.log.recs.iter().enumerate() {
            if let Ev::Arrive { ent: e, kind, pdu: Some(p), .. } = &r.ev {
                if *e == ent && pdu_tid(p) == id {
                    v.push((i, r.t_us, *kind, p));
                }
            }
        }
        v
    }
    pub fn spans(&self, id: TransactionID, kind: TaskKind) -> Vec<&TaskSpan> {
        self.tasks.iter().filter(|t| t.id == id && t.kind == kind).collect()
    }
    /// all spans of that id/kind have ended; None when there was no such task
    pub fn ended(&self, id: TransactionID, kind: TaskKind) -> Option<u64> {
        let s = self.spans(id, kind);
        if s.is_empty() {
            return None;
        }
        let mut last = 0;
        for t in s {
            match t.end_us {
                Some(e) => last = last.max(e),
                None => return None,
            }
        }
        Some(last)
    }
    pub fn dest_final(&self, tr: usize) -> Option<&'a Option<Vec<u8>>> {
        let mut last = None;
        for r in &self.log.recs {
            if let Ev::Dest { tr: t, content, .. } = &r.ev {
                if *t == tr {
                    last = Some(content);
                }
            }
        }
        last
    }
    /// destination observations of transfer `tr`: (log idx, time, content, why)
    pub fn dests(&self, tr: usize) -> Vec<(usize, u64, &'a Option<Vec<u8>>, &'static str)> {
        let mut v = vec![];
        for (i, r) in self.log.recs.iter().enumerate() {
            if let Ev::Dest { tr: t, content, why } = &r.ev {
                if *t == tr {
                    v.push((i, r.t_us, content, *why));
                }
            }
        }
        v
    }
    pub fn markers(&self, tr: usize) -> Vec<(usize, u64, &'a Option<Vec<u8>>)> {
        let mut v = vec![];
        for (i, r) in self.log.recs.iter().enumerate() {
            if let Ev::Marker { tr: t, content } = &r.ev {
                if *t == tr {
                    v.push((i, r.t_us, content));
                }
            }
        }
        v
    }
    pub fn prims(&self, ent: Ent, tr: usize) -> Vec<(usize, u64, PrimKind, bool)> {
        let mut v = vec![];
        for (i, r) in self.log.recs.iter().enumerate() {
            if let Ev::Prim { ent: e, what, id, tr: t } = &r.ev {
                if *e == ent && *t == tr {
                    v.push((i, r.t_us, *what, id.is_some()));
                }
            }
        }
        v
    }
    pub fn time_of_last_fault(&self) -> u64 {
        let mut t = 0;
        for r in &self.log.recs {
            if let Ev::Emit { fate, .. } = &r.ev {
                if !fate.is_empty() && fate != "scripted" {
                    t = r.t_us;
                }
            }
        }
        t
    }
    pub fn faults_applied(&self) -> usize {
        self.log.recs.iter().filter(|r| matches!(&r.ev, Ev::Emit { fate, .. } if !fate.is_empty() && fate != "scripted")).count()
    }
}

/// Shape of a transaction's history at one entity, for finding keys: the kinds (not contents,
/// indices or times) of the last PDUs it emitted and received, and the primitives applied.
pub fn history_shape(d: &Dig, info: &Info, ent: Ent, tr: usize) -> String {
    let id = match d.id(tr) {
        Some(i) => i,
        None => return "no-id".into(),
    };
    let role = if info.transfers[tr].src == ent { "send" } else { "recv" };
    let em = d.emits(ent, id);
    let ar = d.arrivals(ent, id);
    let kd = |k: Kind, p: &PDU| -> String {
        match &p.payload {
            PDUPayload::Directive(Operations::EoF(e)) if e.condition != Condition::NoError => format!("EOF({:?})", e.condition),
            PDUPayload::Directive(Operations::Finished(f)) if f.condition != Condition::NoError => format!("FIN({:?})", f.condition),
            PDUPayload::Directive(Operations::Ack(a)) if a.condition != Condition::NoError => format!("{}({:?})", kind_short(k), a.condition),
            _ => kind_short(k).to_string(),
        }
    };
    let last_out = em.last().map(|x| kd(x.3, x.4)).unwrap_or_else(|| "-".into());
    let last_in = ar.last().map(|x| kd(x.2, x.3)).unwrap_or_else(|| "-".into());
    let mut prims: Vec<String> = d.prims(ent, tr).iter().filter(|p| p.3 && p.2 != PrimKind::Report).map(|p| format!("{:?}", p.2)).collect();
    prims.dedup();
    let k = &info.knobs[ent];
    format!("role={} cfg={} prims=[{}] last_out={} last_in={}", role, k.shape(), prims.join(","), last_out, last_in)
}

pub fn witness(log: &RunLog, info: &Info, head: &str) -> String {
    let mut s = String::new();
    s.push_str(head);
    s.push('\n');
    s.push_str(&format!("case {} :: {}\n", info.case, info.desc));
    for l in render_log(log, 160) {
        s.push_str(&l);
        s.push('\n');
    }
    s
}

pub fn sample_json(log: &RunLog, info: &Info, max: usize) -> J {
    J::obj()
        .set("case", J::s(&info.case))
        .set("scenario", J::s(&info.desc))
        .set("virtual_end_ms", J::U(log.end_us / 1000))
        .set("trace", J::A(render_log(log, max).into_iter().map(J::s).collect()))
}

/// Count what the monitors saw into the report.
pub fn count_observed(rep: &mut Report, log: &RunLog) {
    for r in &log.recs {
        match &r.ev {
            Ev::Emit { kind, fate, .. } => {
                rep.count(&format!("pdu_emitted:{}", kind_short(*kind)));
                if !fate.is_empty() && fate != "scripted" {
                    for f in fate.split(' ') {
                        let f = f.trim_end_matches(|c: char| c.is_ascii_digit());
                        rep.count(&format!("fault_applied:{}", f));
                    }
                }
            }
            Ev::Arrive { kind, .. } => rep.count(&format!("pdu_delivered:{}", kind_short(*kind))),
            Ev::Ind { ind, .. } => {
                let k = ind_kind(ind);
                if k != IndKind::FileSegmentRecv && k != IndKind::Report {
                    rep.count(&format!("indication:{:?}", k));
                }
            }
            Ev::Prim { what, id, .. } => {
                if id.is_some() {
                    rep.count(&format!("primitive:{:?}", what))
                }
            }
            Ev::Task(TaskEvent::End(..)) => rep.count("task_end_events"),
            Ev::Task(TaskEvent::Spin(..)) => rep.count("task_spin_events"),
            _ => {}
        }
    }
    rep.add("events", log.recs.len() as u64);
}

// ------------------------------------------------------------------------------------ runner

/// Run cases `0..n` (built on demand by `build`) on all cores; `judge` evaluates each finished run.
pub fn run_cases(
    n: usize,
    name: &'static str,
    build: impl Fn(usize) -> Option<Case> + Send + Sync + 'static,
    judge: impl Fn(&Info, &RunLog, &mut Report) + Send + Sync + 'static,
) -> Report {
    let threads = crate::util::n_threads();
    let build = std::sync::Arc::new(build);
    let b2 = build.clone();
    let states = run_pool(
        n,
        threads,
        300,
        move |w| (Report::new(), crate::util::scratch(&format!("{}-w{}", name, w))),
        move |i| format!("{}#{}", name, i),
        move |st: &mut (Report, String), i| {
            let case = match b2(i) {
                Some(c) => c,
                None => return,
            };
            let Case { sc, info } = case;
            let log = run(sc, &st.1);
            st.0.eval();
            if log.budget_exceeded {
                st.0.count("runs_over_event_budget");
            }
            judge(&info, &log, &mut st.0);
        },
    );
    let mut rep = Report::new();
    for (r, dir) in states {
        rep.merge(r);
        let _ = std::fs::remove_dir_all(dir);
    }
    rep
}

pub fn run_single(case: Case, judge: impl Fn(&Info, &RunLog, &mut Report)) -> Report {
    let scratch = crate::util::scratch("replay");
    let Case { sc, info } = case;
    let log = run(sc, &scratch);
    let mut rep = Report::new();
    rep.eval();
    println!("== replay of case {} :: {}", info.case, info.desc);
    for l in render_log(&log, 2000) {
        println!("{}", l);
    }
    println!("== tasks alive at end: {:?}; probe {:?}; daemons alive {:?}", log.tasks_alive_at_end, log.probe, log.daemons_alive);
    judge(&info, &log, &mut rep);
    for ((o, k), (n, v)) in &rep.violations {
        println!("== violation oracle={} key={} count={}\n{}", o, k, n, v.detail.lines().next().unwrap_or(""));
    }
    if rep.violations.is_empty() {
        println!("== no oracle fired on this run");
    }
    let _ = std::fs::remove_dir_all(scratch);
    rep
}

// ------------------------------------------------------------------------------------ generators

pub fn rand_knobs(rng: &mut Rng, ack_only: bool) -> Knobs {
    let mut k = Knobs::base();
    if !ack_only && rng.chance(2, 5) {
        k.mode = TransmissionMode::Unacknowledged;
    }
    k.closure = rng.bool();
    k.nak = nak_procs()[rng.usize(4)];
    k.crc = rng.bool();
    k.checksum = if rng.chance(1, 5) { cfdp_core::filestore::ChecksumType::Null } else { cfdp_core::filestore::ChecksumType::Modular };
    k.seg = *rng.pick(&[16u16, 24, 32, 64, 100, 256, 1024]);
    k
}

pub fn rand_size(rng: &mut Rng, seg: usize) -> usize {
    let s = sizes(seg);
    if rng.chance(4, 5) {
        s[rng.usize(s.len())]
    } else {
        rng.usize(9 * seg)
    }
}

/// One random fault inside the C02 hypothesis (no corruption).
pub fn rand_fault(rng: &mut Rng, n0: usize, n1: usize, allow_drop: bool) -> Rule {
    let fwd = rng.chance(3, 5);
    let (from, to, n) = if fwd { (0, 1, n0) } else { (1, 0, n1) };
    let idx = rng.usize(n.max(1));
    let a = match rng.below(if allow_drop { 4 } else { 3 }) {
        0 => Action::Dup(1 + rng.below(2) as u32, rng.below(4)),
        1 => Action::Delay(1 + rng.below(6)),
        2 => Action::Delay(200 + rng.below(1000)),
        _ => Action::Drop,
    };
    Rule { from, to, m: Matcher::Nth(idx), a }
}

pub fn rule_desc(r: &Rule) -> String {
    format!("e{}->e{} {:?} {:?}", r.from, r.to, r.m, r.a)
}
pub fn rules_desc(rs: &[Rule]) -> String {
    rs.iter().map(rule_desc).collect::<Vec<_>>().join("; ")
}

/// signature of (knobs shape, fault kinds, run interleaving) for distinct counting
pub fn case_sig(info: &Info, log: &RunLog) -> u64 {
    let mut h = interleaving_sig(log);
    h = fnv_mix(h, fnv1a(info.knobs[0].describe().as_bytes()));
    h = fnv_mix(h, info.transfers.first().map(|t| t.content.len() as u64).unwrap_or(0));
    h
}
