//! E4: the real UdpTransport on loopback. C16: a datagram is decoded from its own bytes only.
use crate::gen::corpus;
use crate::report::{Meta, Report};
use crate::util::{fnv1a, fnv_mix, hex, Rng, J};
use cfdp_core::pdu::{PDUEncode, PDU};
use cfdp_daemon::transport::{PDUTransport, UdpTransport};
use std::collections::HashMap;
use std::time::Duration;

fn short(s: String) -> String {
    if s.len() > 300 {
        format!("{}…", &s[..300])
    } else {
        s
    }
}

pub fn run_c16(tier: &str, seed: u64, replay: Option<&str>) -> (Meta, Report) {
    let mut rep = Report::new();
    let mut rng = Rng::derive(seed, 16, 0);
    let mut corp = corpus(&mut rng, false);
    corp.extend(corpus(&mut rng, true).into_iter().map(|(n, p)| (format!("crc/{}", n), p)));
    // order: A must be at least as long as B; use every ordered pair on a sub-corpus in quick
    let stride = if tier == "thorough" { 1 } else { 5 };
    let meta = Meta {
        property: "C16",
        level: "fault_enumeration",
        rule: format!("corpus of {} PDUs (every payload kind x small/large x id widths, with and without CRC). For ordered pairs (A,B) with len(A) >= len(B) (every {}-th pair): A is sent over loopback UDP and received, then every truncation B[..k], k = 0..=len(B), is sent and the value returned by UdpTransport::receive() is compared with PDU::decode of exactly those k bytes. distinct_nontrivial = distinct (A,B,k) with k < len(B)", corp.len(), stride),
        exhaustive: tier == "thorough",
        assumptions: vec!["loopback UDP delivers datagrams in order and unmodified; a receive that does not return within 5 s wall is inconclusive".into()],
        require: vec![("truncated-datagrams".into(), 500)],
        extra: vec![],
    };
    let rt = tokio::runtime::Builder::new_current_thread().enable_all().build().unwrap();
    let only = replay.map(|s| s.to_string());
    rt.block_on(async {
        let sock = match tokio::net::UdpSocket::bind("127.0.0.1:0").await {
            Ok(s) => s,
            Err(e) => {
                rep.inconclusive(&format!("cannot bind loopback socket: {}", e), "C16/bind");
                return;
            }
        };
        let addr = sock.local_addr().unwrap();
        let mut transport = UdpTransport::try_from((sock, HashMap::new())).unwrap();
        let sender = tokio::net::UdpSocket::bind("127.0.0.1:0").await.unwrap();
        let mut pair_idx = 0usize;
        'outer: for (ia, (na, a)) in corp.iter().enumerate() {
            let ea = a.clone().encode();
            for (ib, (nb, b)) in corp.iter().enumerate() {
                let eb = b.clone().encode();
                if ea.len() < eb.len() {
                    continue;
                }
                pair_idx += 1;
                if pair_idx % stride != 0 {
                    continue;
                }
                let case = format!("C16/{}/{}/{}", seed, ia, ib);
                if let Some(o) = &only {
                    if *o != case {
                        continue;
                    }
                }
                // long valid datagram first
                if sender.send_to(&ea, addr).await.is_err() {
                    rep.inconclusive("send failed", &case);
                    continue;
                }
                match tokio::time::timeout(Duration::from_secs(5), transport.receive()).await {
                    Err(_) => {
                        rep.inconclusive("receive timed out (5 s wall)", &case);
                        break 'outer;
                    }
                    Ok(r) => {
                        rep.eval();
                        match r {
                            Ok(p) if &p == a => rep.count("full-datagram-accepted"),
                            other => rep.violate("udp-full", "full-datagram-not-returned".into(), &case, format!("{} sent whole, receive() returned {}", na, short(format!("{:?}", other)))),
                        }
                    }
                }
                for k in 0..=eb.len() {
                    let cut = &eb[..k];
                    if sender.send_to(cut, addr).await.is_err() {
                        rep.inconclusive("send failed", &case);
                        continue;
                    }
                    let got = match tokio::time::timeout(Duration::from_secs(5), transport.receive()).await {
                        Err(_) => {
                            rep.inconclusive("receive timed out (5 s wall)", &case);
                            break 'outer;
                        }
                        Ok(r) => r,
                    };
                    rep.eval();
                    let mut sl = cut;
                    let want = PDU::decode(&mut sl);
                    if k < eb.len() {
                        rep.count("truncated-datagrams");
                        rep.nontrivial(fnv_mix(fnv_mix(fnv1a(na.as_bytes()), fnv1a(nb.as_bytes())), k as u64));
                    }
                    let ok = match (&got, &want) {
                        (Ok(g), Ok(w)) => g == w,
                        (Err(_), Err(_)) => true,
                        _ => false,
                    };
                    if ok {
                        rep.count(if got.is_ok() { "agree-accepted" } else { "agree-rejected" });
                    } else {
                        let key = match (&got, &want) {
                            (Ok(_), Err(_)) => "truncated-datagram-completed-with-stale-bytes",
                            (Err(_), Ok(_)) => "valid-datagram-rejected",
                            _ => "different-pdu",
                        };
                        rep.violate(
                            "udp-own-bytes",
                            key.into(),
                            &case,
                            format!("after {} ({} bytes), datagram {}[..{}] = {} : receive() gave {} but decoding exactly those bytes gives {}", na, ea.len(), nb, k, hex(cut), short(format!("{:?}", got)), short(format!("{:?}", want))),
                        );
                    }
                }
                if pair_idx % 211 == 0 {
                    rep.sample(J::obj().set("case", J::s(&case)).set("A", J::s(na)).set("B", J::s(nb)).set("truncations", J::U(eb.len() as u64 + 1)));
                }
            }
        }
    });
    if rep.samples.is_empty() {
        rep.sample(J::obj().set("note", J::s("see rule")));
    }
    (meta, rep)
}
