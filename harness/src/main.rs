//! cfdp-verif: runtime monitors for cfdp-rs. One sub-command per property.
//! usage: cfdp-verif <C01..C20> --tier quick|thorough --seed N --out FILE [--replay CASE]
mod alloc;
mod gen;
mod pure_codec;
mod report;
mod util;

#[global_allocator]
static GLOBAL: alloc::Counting = alloc::Counting;

fn main() {
    let args: Vec<String> = std::env::args().collect();
    if args.len() < 2 {
        eprintln!("usage: cfdp-verif <property> --tier quick|thorough --seed N --out FILE [--replay CASE]");
        std::process::exit(64);
    }
    let prop = args[1].clone();
    let mut tier = "quick".to_string();
    let mut seed: u64 = 1;
    let mut out: Option<String> = None;
    let mut replay: Option<String> = None;
    let mut i = 2;
    while i < args.len() {
        match args[i].as_str() {
            "--tier" => {
                tier = args[i + 1].clone();
                i += 1
            }
            "--seed" => {
                seed = args[i + 1].parse().unwrap_or(1);
                i += 1
            }
            "--out" => {
                out = Some(args[i + 1].clone());
                i += 1
            }
            "--replay" => {
                replay = Some(args[i + 1].clone());
                i += 1
            }
            _ => {}
        }
        i += 1;
    }
    let t0 = std::time::Instant::now();
    let r = replay.as_deref();
    let (meta, rep) = match prop.as_str() {
        "C05" => pure_codec::run_c05(&tier, seed, r),
        "C06" => pure_codec::run_c06(&tier, seed, r),
        "C15" => pure_codec::run_c15(&tier, seed, r),
        other => {
            eprintln!("unknown property {}", other);
            std::process::exit(64);
        }
    };
    let wall = t0.elapsed().as_secs_f64();
    let j = report::result_json(&meta, &rep, &tier, seed, wall);
    let s = j.to_string();
    match out {
        Some(p) => std::fs::write(&p, s).expect("write result"),
        None => println!("{}", s),
    }
}
