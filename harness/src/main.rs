//! cfdp-verif: runtime monitors for cfdp-rs. One sub-command per property.
//! usage: cfdp-verif <C01..C20> --tier quick|thorough --seed N --out FILE [--replay CASE]
mod alloc;
mod e1;
mod p_xfer;
mod p_proto;
mod p_final;
mod p_peer;
mod p_multi;
mod p_mt;
mod fs;
mod gen;
mod pure_codec;
mod pure_misc;
mod pure_segments;
mod udp;
mod report;
mod sim;
mod simgen;
mod util;

#[global_allocator]
static GLOBAL: alloc::Counting = alloc::Counting;

fn main() {
    let args: Vec<String> = std::env::args().collect();
    if args.len() < 2 {
        eprintln!("usage: cfdp-verif <property> --tier quick|thorough --seed N --out FILE [--replay CASE]");
        std::process::exit(64);
    }
    let prop = args[1].clone();
    let mut tier = "quick".to_string();
    let mut seed: u64 = 1;
    let mut out: Option<String> = None;
    let mut replay: Option<String> = None;
    let mut i = 2;
    while i < args.len() {
        match args[i].as_str() {
            "--tier" => {
                tier = args[i + 1].clone();
                i += 1
            }
            "--seed" => {
                seed = args[i + 1].parse().unwrap_or(1);
                i += 1
            }
            "--out" => {
                out = Some(args[i + 1].clone());
                i += 1
            }
            "--replay" => {
                replay = Some(args[i + 1].clone());
                i += 1
            }
            _ => {}
        }
        i += 1;
    }
    // open the result file first, then confine the process to a scratch jail
    let mut out_file = out.as_ref().map(|p| std::fs::File::create(p).expect("create result file"));
    match util::enter_jail(&prop) {
        Ok(d) => eprintln!("jail: {}", d),
        Err(e) => {
            // Engines that execute hostile file names must not run unconfined.
            println!("INCONCLUSIVE property={} containment unavailable: {}", prop, e);
            std::process::exit(2);
        }
    }
    let t0 = std::time::Instant::now();
    let r = replay.as_deref();
    let (meta, rep) = match prop.as_str() {
        "C05" => pure_codec::run_c05(&tier, seed, r),
        "C06" => pure_codec::run_c06(&tier, seed, r),
        "C15" => pure_codec::run_c15(&tier, seed, r),
        "C09" => pure_segments::run_c09(&tier, seed, r),
        "C12" => fs::run_c12(&tier, seed, r),
        "C14" => pure_misc::run_c14(&tier, seed, r),
        "C16" => udp::run_c16(&tier, seed, r),
        "C01" => p_xfer::run_c01(&tier, seed, r),
        "C02" => p_xfer::run_c02(&tier, seed, r),
        "C03" => p_xfer::run_c03(&tier, seed, r),
        "C18" => p_proto::run_c18(&tier, seed, r),
        "C19" => p_proto::run_c19(&tier, seed, r),
        "C20" => p_proto::run_c20(&tier, seed, r),
        "C11" => p_multi::run_c11(&tier, seed, r),
        "C11mt" => p_mt::run_c11mt(&tier, seed, r),
        "C07" => p_peer::run_c07(&tier, seed, r),
        "C08" => p_peer::run_c08(&tier, seed, r),
        "C04" => p_final::run_c04(&tier, seed, r),
        "C10" => p_final::run_c10(&tier, seed, r),
        "C13b" => {
            let mut rep = report::Report::new();
            p_final::run_c13b(&mut rep, &tier, seed, r);
            (p_final::meta_c13b(), rep)
        }
        "C17b" => {
            let mut rep = report::Report::new();
            p_final::run_c17b(&mut rep, &tier, seed, r);
            (p_final::meta_c17b(), rep)
        }
        "C13a" => {
            let mut rep = report::Report::new();
            fs::run_c13a(&mut rep, &tier, seed, r);
            (pure_misc::meta_c17a_only(), rep)
        }
        "C17a" => {
            let mut rep = report::Report::new();
            pure_misc::run_c17a(&mut rep, &tier, seed, r);
            (pure_misc::meta_c17a_only(), rep)
        }
        "demo" => {
            let mut k = simgen::Knobs::base();
            if let Some(r) = r {
                for tok in r.split(',') {
                    match tok {
                        "unack" => k.mode = cfdp_core::pdu::TransmissionMode::Unacknowledged,
                        "closure" => k.closure = true,
                        "crc" => k.crc = true,
                        "imm" => k.nak = cfdp_core::daemon::NakProcedure::Immediate(std::time::Duration::ZERO),
                        _ => {}
                    }
                }
            }
            let mut rng = util::Rng::new(seed);
            let size: usize = std::env::var("DEMO_SIZE").ok().and_then(|s| s.parse().ok()).unwrap_or(200);
            let c = simgen::content(&mut rng, size, 0, 64, 7);
            let mut sc = simgen::two_party("demo", seed, &k, c);
            if let Ok(d) = std::env::var("DEMO_DROP") {
                for t in d.split(',') {
                    let mut it = t.split(':');
                    let from: usize = it.next().unwrap().parse().unwrap();
                    let n: usize = it.next().unwrap().parse().unwrap();
                    sc.rules.push(sim::Rule { from, to: 1 - from, m: sim::Matcher::Nth(n), a: sim::Action::Drop });
                }
            }
            sc.probe = std::env::var("DEMO_PROBE").is_ok();
            let scratch = util::scratch("demo");
            let t = std::time::Instant::now();
            let log = sim::run(sc, &scratch);
            eprintln!("wall {:?}, virtual end {} ms, events {}", t.elapsed(), log.end_us / 1000, log.recs.len());
            for l in sim::render_log(&log, 400) {
                eprintln!("{}", l);
            }
            eprintln!("alive at end: {:?} probe {:?} daemons {:?}", log.tasks_alive_at_end, log.probe, log.daemons_alive);
            std::process::exit(0);
        }
        other => {
            eprintln!("unknown property {}", other);
            std::process::exit(64);
        }
    };
    let wall = t0.elapsed().as_secs_f64();
    let j = report::result_json(&meta, &rep, &tier, seed, wall);
    let s = j.to_string();
    util::clean_jail();
    match out_file.as_mut() {
        Some(f) => {
            use std::io::Write;
            f.write_all(s.as_bytes()).expect("write result");
        }
        None => {
            if replay.is_none() {
                println!("{}", s)
            }
        }
    }
}
