//! E3: the real NativeFileStore in a sandbox. C12 (confinement) and C13a (request semantics).
use crate::report::{Meta, Report};
use crate::util::{fnv1a, run_pool, Rng, J};
use camino::{Utf8Path, Utf8PathBuf};
use cfdp_core::filestore::{FileStore, NativeFileStore};
use cfdp_core::pdu::*;
use std::collections::BTreeMap;
use std::fs;
use std::io::Read;
use std::panic::{catch_unwind, AssertUnwindSafe};

/// snapshot of a tree: relative path -> None (dir) | Some(content)
type Snap = BTreeMap<String, Option<Vec<u8>>>;

fn snap_into(base: &str, dir: &str, out: &mut Snap, skip: Option<&str>) {
    let rd = match fs::read_dir(dir) {
        Ok(r) => r,
        Err(_) => return,
    };
    for e in rd.flatten() {
        let p = e.path();
        let ps = p.to_string_lossy().to_string();
        if Some(ps.as_str()) == skip {
            continue;
        }
        let rel = ps[base.len()..].trim_start_matches('/').to_string();
        let md = match fs::symlink_metadata(&p) {
            Ok(m) => m,
            Err(_) => continue,
        };
        if md.is_dir() {
            out.insert(rel, None);
            snap_into(base, &ps, out, skip);
        } else {
            out.insert(rel, Some(fs::read(&p).unwrap_or_default()));
        }
    }
}
/// Cheap variant for C12: identity, size and modification time instead of content.
fn stat_into(base: &str, dir: &str, out: &mut Snap, skip: Option<&str>) {
    use std::os::unix::fs::MetadataExt;
    let rd = match fs::read_dir(dir) {
        Ok(r) => r,
        Err(_) => return,
    };
    for e in rd.flatten() {
        let p = e.path();
        let ps = p.to_string_lossy().to_string();
        if Some(ps.as_str()) == skip {
            continue;
        }
        let rel = ps[base.len()..].trim_start_matches('/').to_string();
        let md = match fs::symlink_metadata(&p) {
            Ok(m) => m,
            Err(_) => continue,
        };
        if md.is_dir() {
            out.insert(rel, None);
            stat_into(base, &ps, out, skip);
        } else {
            let sig = format!("{}:{}:{}:{}", md.ino(), md.len(), md.mtime(), md.mtime_nsec());
            out.insert(rel, Some(sig.into_bytes()));
        }
    }
}
fn snapshot(base: &str, skip: Option<&str>) -> Snap {
    let mut s = Snap::new();
    snap_into(base, base, &mut s, skip);
    s
}

/// Lexical resolution of a native path ('.' and '..' resolved without touching the file system).
fn lexical(p: &Utf8Path) -> Vec<String> {
    let mut out: Vec<String> = vec![];
    for c in p.as_str().split('/') {
        match c {
            "" | "." => {}
            ".." => {
                out.pop();
            }
            x => out.push(x.to_string()),
        }
    }
    out
}

// ------------------------------------------------------------------------------------- C12

const SECRET: &[u8] = b"SENTINEL-outside-root-1234567";
const SECRET2: &[u8] = b"SENTINEL-in-sibling-root2-abcdefghijk";

/// Layout: `area` is this run's private directory; the filestore's parent directory lies five levels
/// below it so that every name of the workload resolves inside `area` even when it escapes the root.
fn parent_of(area: &str) -> String {
    format!("{}/l1/l2/l3/l4/l5", area)
}
fn build_sandbox(area: &str) {
    let _ = fs::remove_dir_all(area);
    let parent = parent_of(area);
    fs::create_dir_all(&parent).unwrap();
    // a sentinel at every level above the root
    let mut d = area.to_string();
    for l in ["", "l1", "l2", "l3", "l4", "l5"] {
        if !l.is_empty() {
            d = format!("{}/{}", d, l);
        }
        fs::write(format!("{}/f", d), SECRET).unwrap();
        fs::create_dir_all(format!("{}/a", d)).unwrap();
        fs::write(format!("{}/a/f", d), SECRET).unwrap();
    }
    fs::create_dir_all(format!("{}/root2/a", parent)).unwrap();
    fs::write(format!("{}/root2/f", parent), SECRET2).unwrap();
    fs::write(format!("{}/root2/a/f", parent), SECRET2).unwrap();
    fs::create_dir_all(format!("{}/d", parent)).unwrap();
    fs::write(format!("{}/d/f", parent), SECRET).unwrap();
    reset_root(area);
}
fn reset_root(area: &str) {
    let parent = parent_of(area);
    let _ = fs::remove_dir_all(format!("{}/root", parent));
    fs::create_dir_all(format!("{}/root/a/a", parent)).unwrap();
    fs::create_dir_all(format!("{}/root/d", parent)).unwrap();
    fs::write(format!("{}/root/a/f", parent), b"inside-af").unwrap();
    fs::write(format!("{}/root/f", parent), b"inside-f").unwrap();
    fs::write(format!("{}/root/g", parent), b"inside-g-longer").unwrap();
}
/// Everything the workload must leave untouched: the area outside the root, the process's working
/// directory tree and the top level of the jail.
fn outside_snapshot(area: &str) -> Snap {
    let root = format!("{}/root", parent_of(area));
    let mut s = Snap::new();
    stat_into(area, area, &mut s, Some(&root));
    let mut w = Snap::new();
    stat_into("/work", "/work", &mut w, None);
    for (k, v) in w {
        s.insert(format!("<cwd-tree>/{}", k), v);
    }
    if let Ok(rd) = fs::read_dir("/") {
        for e in rd.flatten() {
            s.insert(format!("<jail-top>/{}", e.file_name().to_string_lossy()), None);
        }
    }
    s
}

/// All names of <= `maxc` components over {a, f, d, ., .., ""} with the listed prefixes.
fn c12_names(parent: &str, maxc: usize) -> Vec<String> {
    let comps = ["a", "f", ".", "..", ""];
    let mut bodies: Vec<String> = vec![String::new()];
    let mut frontier: Vec<Vec<&str>> = vec![vec![]];
    for _ in 0..maxc {
        let mut next = vec![];
        for f in &frontier {
            for c in comps {
                let mut g = f.clone();
                g.push(c);
                bodies.push(g.join("/"));
                next.push(g);
            }
        }
        frontier = next;
    }
    bodies.sort();
    bodies.dedup();
    let root = format!("{}/root", parent);
    let sib = format!("{}/root2", parent);
    let prefixes = vec![
        String::new(),
        "/".to_string(),
        "//".to_string(),
        format!("{}/", root),
        format!("{}", root),
        format!("{}/", sib),
        format!("{}/../", root),
        format!("{}/./", root),
        format!("/{}/", root.trim_start_matches('/')),
        "../".to_string(),
    ];
    let mut out = vec![];
    for p in &prefixes {
        for b in &bodies {
            out.push(format!("{}{}", p, b));
        }
    }
    out.sort();
    out.dedup();
    out
}

const C12_OPS: [&str; 24] = [
    "native_path",
    "create_file",
    "delete_file",
    "rename_from",
    "rename_to",
    "append_into",
    "append_from",
    "replace_into",
    "replace_from",
    "create_directory",
    "remove_directory",
    "list_directory",
    "open_read",
    "open_write",
    "get_size",
    "req:CreateFile",
    "req:DeleteFile",
    "req:RenameFile",
    "req:AppendFile",
    "req:ReplaceFile",
    "req:CreateDirectory",
    "req:RemoveDirectory",
    "req:DenyFile",
    "req:DenyDirectory",
];

fn name_class(name: &str, parent: &str) -> String {
    let root = format!("{}/root", parent);
    let pre = if name.starts_with(&format!("{}/..", root)) {
        "root-prefix+dotdot"
    } else if name.starts_with(&format!("{}2", root)) {
        "sibling-prefix"
    } else if name.starts_with(&root) {
        "root-prefix"
    } else if name.starts_with('/') {
        "absolute"
    } else {
        "relative"
    };
    format!("{}{}", pre, if name.contains("..") { "+dotdot" } else { "" })
}

fn c12_name(rep: &mut Report, area: &str, name: &str, case: &str, outside0: &Snap) {
    let parent_s = parent_of(area);
    let parent = parent_s.as_str();
    let area_lex = lexical(Utf8Path::new(area));
    let root = format!("{}/root", parent);
    let store = NativeFileStore::new(Utf8PathBuf::from(&root));
    let root_lex = lexical(Utf8Path::new(&root));
    let benign = "zz_benign";
    let mut root0: Option<Snap> = None;
    for (opi, op) in C12_OPS.iter().enumerate() {
        rep.eval();
        rep.count(&format!("op:{}", op));
        // make the benign partner exist where needed
        if fs::read(format!("{}/{}", root, benign)).ok().as_deref() != Some(b"benign".as_slice()) {
            let _ = fs::write(format!("{}/{}", root, benign), b"benign");
            root0 = None;
        }
        if root0.is_none() {
            let mut r0 = Snap::new();
            stat_into(&root, &root, &mut r0, None);
            root0 = Some(r0);
        }
        let n = Utf8PathBuf::from(name);
        // containment guard: a name whose native path would leave this run's private area is
        // judged by the native-path oracle only and never executed
        if *op != "native_path" {
            let np = store.get_native_path(&n);
            let lx = lexical(&np);
            if lx.len() < area_lex.len() || lx[..area_lex.len()] != area_lex[..] {
                rep.count("skipped:native-path-leaves-private-area");
                continue;
            }
        }
        let r = catch_unwind(AssertUnwindSafe(|| -> Option<String> {
            // returns Some(description) if an escaping READ was observed by value
            match *op {
                "native_path" => {
                    let np = store.get_native_path(&n);
                    let lx = lexical(&np);
                    if lx.len() < root_lex.len() || lx[..root_lex.len()] != root_lex[..] {
                        return Some(format!("native path {} resolves outside the root", np));
                    }
                    None
                }
                "create_file" => {
                    let _ = store.create_file(&n);
                    None
                }
                "delete_file" => {
                    let _ = store.delete_file(&n);
                    None
                }
                "rename_from" => {
                    let _ = store.rename_file(&n, "zz_new");
                    None
                }
                "rename_to" => {
                    let _ = store.rename_file(benign, &n);
                    None
                }
                "append_into" => {
                    let _ = store.append_file(&n, benign);
                    None
                }
                "append_from" => {
                    let _ = store.append_file(benign, &n);
                    leak_check(&format!("{}/{}", root, benign))
                }
                "replace_into" => {
                    let _ = store.replace_file(&n, benign);
                    None
                }
                "replace_from" => {
                    let _ = store.replace_file(benign, &n);
                    leak_check(&format!("{}/{}", root, benign))
                }
                "create_directory" => {
                    let _ = store.create_directory(&n);
                    None
                }
                "remove_directory" => {
                    // never aim at the root itself: removing it is not an escape
                    let np = store.get_native_path(&n);
                    if lexical(&np) != root_lex {
                        let _ = store.remove_directory(&n);
                    }
                    None
                }
                "list_directory" => {
                    if let Ok(l) = store.list_directory(&n) {
                        // the listing of `parent` (or anything above) names root2
                        if l.contains("root2") {
                            return Some("directory listing shows entries outside the root".into());
                        }
                    }
                    None
                }
                "open_read" => {
                    if let Ok(mut f) = store.open(&n, fs::OpenOptions::new().read(true)) {
                        let mut b = vec![];
                        let _ = f.read_to_end(&mut b);
                        if b.starts_with(b"SENTINEL") {
                            return Some("open(read) returned the content of a file outside the root".into());
                        }
                    }
                    None
                }
                "open_write" => {
                    let _ = store.open(&n, fs::OpenOptions::new().create(true).write(true).truncate(true));
                    None
                }
                "get_size" => {
                    if let Ok(sz) = store.get_size(&n) {
                        if sz == SECRET.len() as u64 || sz == SECRET2.len() as u64 {
                            return Some(format!("get_size returned {} = size of a sentinel outside the root", sz));
                        }
                    }
                    None
                }
                other => {
                    let action = match &other[4..] {
                        "CreateFile" => FileStoreAction::CreateFile,
                        "DeleteFile" => FileStoreAction::DeleteFile,
                        "RenameFile" => FileStoreAction::RenameFile,
                        "AppendFile" => FileStoreAction::AppendFile,
                        "ReplaceFile" => FileStoreAction::ReplaceFile,
                        "CreateDirectory" => FileStoreAction::CreateDirectory,
                        "RemoveDirectory" => FileStoreAction::RemoveDirectory,
                        "DenyFile" => FileStoreAction::DenyFile,
                        _ => FileStoreAction::DenyDirectory,
                    };
                    let np = store.get_native_path(&n);
                    let is_root = lexical(&np) == root_lex;
                    let destructive_dir = matches!(action, FileStoreAction::RemoveDirectory | FileStoreAction::DenyDirectory);
                    if !(is_root && destructive_dir) {
                        // name as first, then as second file name
                        let _ = store.process_request(&FileStoreRequest { action_code: action.clone(), first_filename: n.clone(), second_filename: Utf8PathBuf::from(benign) });
                        let _ = fs::write(format!("{}/{}", root, benign), b"benign");
                        let _ = store.process_request(&FileStoreRequest { action_code: action, first_filename: Utf8PathBuf::from(benign), second_filename: n.clone() });
                        return leak_check(&format!("{}/{}", root, benign));
                    }
                    None
                }
            }
        }));
        let _ = opi;
        let cls = name_class(name, parent);
        match r {
            Err(_) => {
                // a panic is not an escape; count it
                rep.count("op-panicked");
            }
            Ok(Some(what)) => rep.violate(
                "escape-read",
                format!("{}:{}", op.split(':').next().unwrap_or(op), cls),
                case,
                format!("name {:?} op {}: {}", name.replace(parent, "<parent>"), op, what.replace(parent, "<parent>")),
            ),
            Ok(None) => {}
        }
        // effect oracle: everything under parent except root is unchanged
        let now = outside_snapshot(area);
        if &now != outside0 {
            let mut diff = vec![];
            for (k, v) in &now {
                if outside0.get(k) != Some(v) {
                    diff.push(format!("changed/created {}", k));
                }
            }
            for k in outside0.keys() {
                if !now.contains_key(k) {
                    diff.push(format!("removed {}", k));
                }
            }
            rep.violate(
                "escape-effect",
                format!("{}:{}", op.split(':').next().unwrap_or(op), cls),
                case,
                format!("name {:?} op {} changed the file system outside the root: {:?}", name.replace(parent, "<parent>"), op, diff),
            );
            build_sandbox(area);
            // shared areas: remove whatever appeared
            for k in now.keys() {
                if !outside0.contains_key(k) {
                    if let Some(rest) = k.strip_prefix("<jail-top>/") {
                        let _ = fs::remove_dir_all(format!("/{}", rest));
                        let _ = fs::remove_file(format!("/{}", rest));
                    }
                    if let Some(rest) = k.strip_prefix("<cwd-tree>/") {
                        let _ = fs::remove_dir_all(format!("/work/{}", rest));
                        let _ = fs::remove_file(format!("/work/{}", rest));
                    }
                }
            }
            let _ = fs::create_dir_all("/work/0/1/2/3/4/5/6/7/8/9");
        } else {
            let mut rs = Snap::new();
            stat_into(&root, &root, &mut rs, None);
            if Some(&rs) != root0.as_ref() {
                reset_root(area);
                let mut r0 = Snap::new();
                stat_into(&root, &root, &mut r0, None);
                root0 = Some(r0);
            }
        }
    }
}
fn leak_check(path: &str) -> Option<String> {
    if let Ok(b) = fs::read(path) {
        if b.windows(8).any(|w| w == b"SENTINEL") {
            return Some("content of a file outside the root was copied into the root".into());
        }
    }
    None
}

pub fn run_c12(tier: &str, seed: u64, replay: Option<&str>) -> (Meta, Report) {
    if std::env::var("VERIF_PANIC_TRACE").is_err() {
        std::panic::set_hook(Box::new(|_| {}));
    }
    let maxc = if tier == "thorough" { 4 } else { 3 };
    let nnames = c12_names("/s/c12-0/l1/l2/l3/l4/l5", maxc).len();
    let meta = Meta {
        property: "C12",
        level: "exploration",
        rule: format!("every name of <= {} components over {{a, f, '.', '..', ''}} under the prefixes {{none, '/', '//', <root>/, <root>, <sibling root2>/, <root>/../, <root>/./, ../}} ({} names), each through get_native_path, the 14 direct operations (both positions of two-name operations) and the 9 process_request actions; oracle: native path resolves lexically inside the root, the tree of the sandbox parent outside the root (sentinel files, sibling root2) is byte-identical afterwards, and no read returns sentinel content/size. distinct_nontrivial = names that contain '..', a leading separator or a root/sibling prefix", maxc, nnames),
        exhaustive: true,
        assumptions: vec!["lexical confinement as stated: symlinks inside the root are not modelled".into(), "removing the root directory itself through a name that resolves to the root is not counted as an escape and is skipped".into()],
        require: vec![],
        extra: vec![],
    };
    let _ = seed;
    assert!(crate::util::jailed(), "C12 only runs inside the jail");
    let area = crate::util::scratch("c12");
    build_sandbox(&area);
    let outside = outside_snapshot(&area);
    let names = c12_names(&parent_of(&area), maxc);
    let mut rep = Report::new();
    let t0 = std::time::Instant::now();
    for (i, name) in names.iter().enumerate() {
        let case = format!("C12/{}/{}", maxc, i);
        if let Some(o) = replay {
            if o != case {
                continue;
            }
        }
        if name.contains("..") || name.starts_with('/') {
            rep.nontrivial(fnv1a(name.replace(area.as_str(), "<P>").as_bytes()));
        }
        if i % 997 == 3 {
            rep.sample(J::obj().set("name", J::s(name.replace(parent_of(&area).as_str(), "<parent>"))).set("ops", J::U(C12_OPS.len() as u64)));
        }
        c12_name(&mut rep, &area, name, &case, &outside);
        if t0.elapsed().as_secs() > 1500 {
            rep.inconclusive("C12 wall budget exhausted before all names were tried", &case);
            break;
        }
    }
    let _ = fs::remove_dir_all(&area);
    (meta, rep)
}

// ------------------------------------------------------------------------------------ C13a

#[derive(Clone, Debug, PartialEq)]
pub enum Node {
    File(Vec<u8>),
    Dir,
}
pub type Model = BTreeMap<String, Node>;

fn model_initial() -> Model {
    let mut m = Model::new();
    m.insert("f1".into(), Node::File(b"one".to_vec()));
    m.insert("f2".into(), Node::File(b"two-two".to_vec()));
    m.insert("d1".into(), Node::Dir);
    m.insert("d1/f3".into(), Node::File(b"three".to_vec()));
    m.insert("d2".into(), Node::Dir);
    m
}
fn materialize(root: &str, m: &Model) {
    let _ = fs::remove_dir_all(root);
    fs::create_dir_all(root).unwrap();
    for (k, v) in m {
        if *v == Node::Dir {
            fs::create_dir_all(format!("{}/{}", root, k)).unwrap();
        }
    }
    for (k, v) in m {
        if let Node::File(b) = v {
            fs::write(format!("{}/{}", root, k), b).unwrap();
        }
    }
}
fn model_of_disk(root: &str) -> Model {
    let s = snapshot(root, None);
    s.into_iter()
        .map(|(k, v)| {
            (
                k,
                match v {
                    None => Node::Dir,
                    Some(b) => Node::File(b),
                },
            )
        })
        .collect()
}
fn parent_ok(m: &Model, p: &str) -> bool {
    match p.rfind('/') {
        None => true,
        Some(i) => m.get(&p[..i]) == Some(&Node::Dir),
    }
}
fn is_file(m: &Model, p: &str) -> bool {
    matches!(m.get(p), Some(Node::File(_)))
}
fn is_dir(m: &Model, p: &str) -> bool {
    matches!(m.get(p), Some(Node::Dir))
}

/// CFDP semantics of one request on the model; returns the expected status.
pub fn model_apply(m: &mut Model, req: &FileStoreRequest) -> FileStoreStatus {
    use FileStoreStatus as S;
    let a = req.first_filename.as_str().to_string();
    let b = req.second_filename.as_str().to_string();
    match req.action_code {
        FileStoreAction::CreateFile => {
            if m.contains_key(&a) || !parent_ok(m, &a) {
                S::CreateFile(CreateFileStatus::NotAllowed)
            } else {
                m.insert(a, Node::File(vec![]));
                S::CreateFile(CreateFileStatus::Successful)
            }
        }
        FileStoreAction::DeleteFile => {
            if is_file(m, &a) {
                m.remove(&a);
                S::DeleteFile(DeleteFileStatus::Successful)
            } else {
                S::DeleteFile(DeleteFileStatus::FileDoesNotExist)
            }
        }
        FileStoreAction::RenameFile => {
            if !is_file(m, &a) {
                S::RenameFile(RenameStatus::OldFilenameDoesNotExist)
            } else if is_file(m, &b) {
                S::RenameFile(RenameStatus::NewFilenameAlreadyExists)
            } else if m.contains_key(&b) || !parent_ok(m, &b) {
                S::RenameFile(RenameStatus::RenameNotAllowed)
            } else {
                let v = m.remove(&a).unwrap();
                m.insert(b, v);
                S::RenameFile(RenameStatus::Successful)
            }
        }
        FileStoreAction::AppendFile => {
            if !is_file(m, &a) {
                S::AppendFile(AppendStatus::Filename1DoesNotExist)
            } else if !is_file(m, &b) {
                S::AppendFile(AppendStatus::Filename2DoesNotExist)
            } else {
                let add = match m.get(&b) {
                    Some(Node::File(x)) => x.clone(),
                    _ => vec![],
                };
                if let Some(Node::File(x)) = m.get_mut(&a) {
                    x.extend(add);
                }
                S::AppendFile(AppendStatus::Successful)
            }
        }
        FileStoreAction::ReplaceFile => {
            if !is_file(m, &a) {
                S::ReplaceFile(ReplaceStatus::Filename1DoesNotExist)
            } else if !is_file(m, &b) {
                S::ReplaceFile(ReplaceStatus::Filename2DoesNotExist)
            } else {
                let new = match m.get(&b) {
                    Some(Node::File(x)) => x.clone(),
                    _ => vec![],
                };
                m.insert(a, Node::File(new));
                S::ReplaceFile(ReplaceStatus::Successful)
            }
        }
        FileStoreAction::CreateDirectory => {
            if m.contains_key(&a) || !parent_ok(m, &a) {
                S::CreateDirectory(CreateDirectoryStatus::DirectoryCannotBeCreated)
            } else {
                m.insert(a, Node::Dir);
                S::CreateDirectory(CreateDirectoryStatus::Successful)
            }
        }
        FileStoreAction::RemoveDirectory => {
            if is_dir(m, &a) {
                let pre = format!("{}/", a);
                m.retain(|k, _| k != &a && !k.starts_with(&pre));
                S::RemoveDirectory(RemoveDirectoryStatus::Successful)
            } else {
                S::RemoveDirectory(RemoveDirectoryStatus::DirectoryDoesNotExist)
            }
        }
        FileStoreAction::DenyFile => {
            if is_file(m, &a) {
                m.remove(&a);
                S::DenyFile(DenyStatus::Successful)
            } else {
                // pinned by the repository's own tests: a missing target is NotAllowed
                S::DenyFile(DenyStatus::NotAllowed)
            }
        }
        FileStoreAction::DenyDirectory => {
            if is_dir(m, &a) {
                let pre = format!("{}/", a);
                m.retain(|k, _| k != &a && !k.starts_with(&pre));
                S::DenyDirectory(DenyStatus::Successful)
            } else {
                S::DenyDirectory(DenyStatus::NotAllowed)
            }
        }
    }
}

pub fn c13_names() -> Vec<&'static str> {
    vec!["f1", "f2", "d1/f3", "d1", "d2", "nx", "d2/new", "nxd/f"]
}
pub fn c13_requests() -> Vec<FileStoreRequest> {
    let names = c13_names();
    let mut v = vec![];
    for act in crate::gen::all_actions() {
        let two = matches!(act, FileStoreAction::RenameFile | FileStoreAction::AppendFile | FileStoreAction::ReplaceFile);
        for a in &names {
            if two {
                for b in &names {
                    v.push(FileStoreRequest { action_code: act.clone(), first_filename: Utf8PathBuf::from(*a), second_filename: Utf8PathBuf::from(*b) });
                }
            } else {
                v.push(FileStoreRequest { action_code: act.clone(), first_filename: Utf8PathBuf::from(*a), second_filename: Utf8PathBuf::new() });
            }
        }
    }
    v
}

fn c13_sequence(rep: &mut Report, root: &str, seq: &[FileStoreRequest], case: &str) {
    let store = NativeFileStore::new(Utf8PathBuf::from(root));
    let mut m = model_initial();
    materialize(root, &m);
    for (i, req) in seq.iter().enumerate() {
        rep.eval();
        let before = m.clone();
        let want = model_apply(&mut m, req);
        let got = match catch_unwind(AssertUnwindSafe(|| store.process_request(req))) {
            Ok(r) => r,
            Err(_) => {
                rep.violate("request-panic", format!("{:?}:panic", req.action_code), case, format!("process_request panicked on {:?}", req));
                return;
            }
        };
        rep.count(&format!("action:{:?}", req.action_code));
        rep.count(if want.success() { "expected-success" } else { "expected-failure" });
        let disk = model_of_disk(root);
        let same_file = req.first_filename == req.second_filename;
        if got.action_and_status != want {
            rep.violate(
                "request-status",
                format!("{:?}:got-{:?}:want-{:?}", req.action_code, got.action_and_status, want),
                case,
                format!("step {} request {:?}: status {:?}, CFDP semantics on the current tree give {:?}; tree before: {:?}", i, req, got.action_and_status, want, before.keys().collect::<Vec<_>>()),
            );
            return;
        }
        if got.first_filename != req.first_filename || got.second_filename != req.second_filename {
            rep.violate("request-echo", format!("{:?}:names-not-echoed", req.action_code), case, format!("response {:?} does not name the request's files {:?}", got, req));
        }
        if disk != m {
            let failed = !want.success();
            rep.violate(
                "request-effect",
                format!("{:?}:{}{}", req.action_code, if failed { "failed-request-changed-tree" } else { "wrong-effect" }, if same_file { ":same-file" } else { "" }),
                case,
                format!("step {} request {:?} ({:?}): tree is {:?}, expected {:?}", i, req, want, disk, m),
            );
            return;
        }
    }
}

pub fn run_c13a(rep_out: &mut Report, tier: &str, seed: u64, replay: Option<&str>) {
    let reqs = c13_requests();
    let nreq = reqs.len();
    let thorough = tier == "thorough";
    // units: first request index (exhaustive pairs / triples below it) + random long sequences
    let depth = if thorough { 3 } else { 2 };
    let rnd = if thorough { 6000 } else { 1500 };
    let base = crate::util::scratch("c13");
    let base2 = base.clone();
    let only = replay.map(|s| s.to_string());
    let reps = run_pool(
        nreq + rnd,
        crate::util::n_threads(),
        600,
        move |w| (Report::new(), format!("{}/w{}/root", base2, w)),
        move |i| if i < nreq { format!("C13a/ex/{}/{}", depth, i) } else { format!("C13a/rnd/{}/{}", seed, i - nreq) },
        move |st, i| {
            let (rep, root) = st;
            let reqs = c13_requests();
            let case = if i < nreq { format!("C13a/ex/{}/{}", depth, i) } else { format!("C13a/rnd/{}/{}", seed, i - nreq) };
            if let Some(o) = &only {
                if *o != case {
                    return;
                }
            }
            if i < nreq {
                // all sequences of length <= depth starting with request i
                let first = reqs[i].clone();
                c13_sequence(rep, root, &[first.clone()], &case);
                if depth >= 2 {
                    for b in &reqs {
                        let s2 = [first.clone(), b.clone()];
                        c13_sequence(rep, root, &s2, &case);
                        rep.nontrivial(fnv1a(format!("{:?}", s2).as_bytes()));
                        if depth >= 3 {
                            // thorough: third request sampled by stride (complete triples are 13.8M)
                            for (k, c) in reqs.iter().enumerate() {
                                if (k + i) % 8 != 0 {
                                    continue;
                                }
                                let s3 = [first.clone(), b.clone(), c.clone()];
                                c13_sequence(rep, root, &s3, &case);
                            }
                        }
                    }
                }
            } else {
                let mut rng = Rng::derive(seed, 13, (i - nreq) as u64);
                let n = 3 + rng.usize(38);
                let seq: Vec<FileStoreRequest> = (0..n).map(|_| reqs[rng.usize(reqs.len())].clone()).collect();
                if (i - nreq) % 499 == 0 {
                    rep.sample(J::obj().set("case", J::s(&case)).set("requests", J::s(format!("{:?}", seq.iter().take(6).map(|r| format!("{:?}({},{})", r.action_code, r.first_filename, r.second_filename)).collect::<Vec<_>>()))));
                }
                rep.nontrivial(fnv1a(format!("{:?}", seq).as_bytes()));
                c13_sequence(rep, root, &seq, &case);
            }
        },
    );
    for (r, _) in reps {
        rep_out.merge(r);
    }
    let _ = fs::remove_dir_all(&base);
}
