//! E1: virtual-time link simulator. Real `Daemon`s (real transactions, filestore, codec) on a paused,
//! seeded, current-thread tokio runtime, connected through a hostile in-memory link implemented
//! via the public `PDUTransport` trait. Everything verdict-relevant is observed at the boundary:
//! PDUs handed to / delivered by the link, indications, user primitives, files.
use async_trait::async_trait;
use camino::Utf8PathBuf;
use cfdp_core::daemon::{EntityConfig, Indication, NakProcedure, PutRequest, Report as StatusReport, UserPrimitive};
use cfdp_core::filestore::{ChecksumType, NativeFileStore};
use cfdp_core::pdu::*;
use cfdp_core::transaction::TransactionID;
use cfdp_daemon::transport::PDUTransport;
use cfdp_daemon::verif::{TaskEvent, TaskKind};
use cfdp_daemon::Daemon;
use std::collections::{BinaryHeap, HashMap};
use std::io::Error as IoError;
use std::sync::atomic::{AtomicBool, Ordering};
use std::sync::{Arc, Mutex};
use std::time::Duration;
use tokio::sync::mpsc::{unbounded_channel, UnboundedReceiver, UnboundedSender};

pub type Ent = usize;

#[derive(Clone, Copy, Debug, PartialEq, Eq, Hash, PartialOrd, Ord)]
pub enum Kind {
    Metadata,
    FileData,
    Eof,
    Finished,
    AckEof,
    AckFin,
    Nak,
    Prompt,
    KeepAlive,
    Undecodable,
}
pub fn kind_of(p: &PDU) -> Kind {
    match &p.payload {
        PDUPayload::FileData(_) => Kind::FileData,
        PDUPayload::Directive(op) => match op {
            Operations::Metadata(_) => Kind::Metadata,
            Operations::EoF(_) => Kind::Eof,
            Operations::Finished(_) => Kind::Finished,
            Operations::Ack(a) => {
                if a.directive == PDUDirective::Finished {
                    Kind::AckFin
                } else {
                    Kind::AckEof
                }
            }
            Operations::Nak(_) => Kind::Nak,
            Operations::Prompt(_) => Kind::Prompt,
            Operations::KeepAlive(_) => Kind::KeepAlive,
        },
    }
}
pub fn kind_short(k: Kind) -> &'static str {
    match k {
        Kind::Metadata => "MD",
        Kind::FileData => "FD",
        Kind::Eof => "EOF",
        Kind::Finished => "FIN",
        Kind::AckEof => "ACKeof",
        Kind::AckFin => "ACKfin",
        Kind::Nak => "NAK",
        Kind::Prompt => "PROMPT",
        Kind::KeepAlive => "KA",
        Kind::Undecodable => "??",
    }
}

#[derive(Clone, Copy, Debug, PartialEq, Eq, Hash)]
pub enum IndKind {
    Transaction,
    EoFSent,
    EoFRecv,
    Finished,
    MetadataRecv,
    FileSegmentRecv,
    Suspended,
    Resumed,
    Report,
    Fault,
    Abandon,
}
pub fn ind_kind(i: &Indication) -> IndKind {
    match i {
        Indication::Transaction(_) => IndKind::Transaction,
        Indication::EoFSent(_) => IndKind::EoFSent,
        Indication::EoFRecv(_) => IndKind::EoFRecv,
        Indication::Finished(_) => IndKind::Finished,
        Indication::MetadataRecv(_) => IndKind::MetadataRecv,
        Indication::FileSegmentRecv(_) => IndKind::FileSegmentRecv,
        Indication::Suspended(_) => IndKind::Suspended,
        Indication::Resumed(_) => IndKind::Resumed,
        Indication::Report(_) => IndKind::Report,
        Indication::Fault(_) => IndKind::Fault,
        Indication::Abandon(_) => IndKind::Abandon,
    }
}
pub fn ind_id(i: &Indication) -> TransactionID {
    match i {
        Indication::Transaction(id) | Indication::EoFSent(id) | Indication::EoFRecv(id) => *id,
        Indication::Finished(f) => f.id,
        Indication::MetadataRecv(m) => m.id,
        Indication::FileSegmentRecv(f) => f.id,
        Indication::Suspended(s) => s.id,
        Indication::Resumed(r) => r.id,
        Indication::Report(r) => r.id,
        Indication::Fault(f) | Indication::Abandon(f) => f.id,
    }
}

// ------------------------------------------------------------------------------------ scenario

#[derive(Clone)]
pub struct EntityCfg {
    pub id: u16,
    pub config: EntityConfig,
    /// None = real daemon; Some = the harness plays this entity
    pub scripted: bool,
}

#[derive(Clone, Debug)]
pub struct TransferSpec {
    pub src: Ent,
    pub dst: Ent,
    pub mode: TransmissionMode,
    pub content: Vec<u8>,
    /// empty source name = no file (filestore-request-only transaction)
    pub src_name: String,
    pub dst_name: String,
    pub requests: Vec<FileStoreRequest>,
    pub start_ms: u64,
    /// a pre-existing (stale) file planted under the destination name
    pub stale_dest: Option<Vec<u8>>,
}

#[derive(Clone, Debug, PartialEq)]
pub enum Matcher {
    /// n-th emission (0-based) on this direction
    Nth(usize),
    /// n-th emission of this kind on this direction
    KindNth(Kind, usize),
    /// every emission with direction-index >= n (blackout from that point on)
    FromIdx(usize),
    /// every emission at or after this virtual time
    FromTime(u64),
    KindAll(Kind),
    /// every file-data PDU carrying this offset
    FdOffset(u64),
    /// every emission of this kind from its n-th occurrence on
    KindFrom(Kind, usize),
}
#[derive(Clone, Debug, PartialEq)]
pub enum Action {
    Drop,
    /// deliver n extra copies, each `spacing_ms` after the previous
    Dup(u32, u64),
    /// deliver late by this much
    Delay(u64),
    /// xor one byte (offset counted from the start of the data field) and fix nothing
    Corrupt(usize, u8),
}
#[derive(Clone, Debug)]
pub struct Rule {
    pub from: Ent,
    pub to: Ent,
    pub m: Matcher,
    pub a: Action,
}

#[derive(Clone, Debug, PartialEq)]
pub enum Trigger {
    /// when entity's n-th emission (0-based, any destination) has been handed to the link
    AfterEmit(Ent, usize),
    AfterEmitKind(Ent, Kind, usize),
    /// when entity's transport has received its n-th PDU
    AfterArrive(Ent, usize),
    AfterArriveKind(Ent, Kind, usize),
    AfterInd(Ent, IndKind, usize),
    At(u64),
}
#[derive(Clone, Copy, Debug, PartialEq)]
pub enum PrimKind {
    Cancel,
    Suspend,
    Resume,
    Report,
    PromptNak,
    PromptKeepAlive,
}
#[derive(Clone, Debug)]
pub enum Act {
    Prim(Ent, PrimKind, usize),
    /// deliver again the bytes of emission #idx of entity `Ent` to its original destination
    Redeliver(Ent, usize),
    /// deliver again the n-th emission of this kind of entity
    RedeliverKind(Ent, Kind, usize),
    /// push raw bytes into the inbound queue of an entity
    Inject(Ent, Vec<u8>),
    /// stop applying fault rules from now on
    HealLink,
    /// add a fault rule from now on (e.g. a blackout that starts when a primitive is issued)
    AddRule(Rule),
}
#[derive(Clone, Debug)]
pub struct Script {
    pub trig: Trigger,
    pub delay_ms: u64,
    pub act: Act,
}

pub struct PeerCtx {
    pub now_ms: u64,
    pub sends: Vec<(Ent, PDU, u64)>,
    pub raw: Vec<(Ent, Vec<u8>, u64)>,
    pub timers: Vec<(u32, u64)>,
}
impl PeerCtx {
    pub fn send(&mut self, to: Ent, pdu: PDU, delay_ms: u64) {
        self.sends.push((to, pdu, delay_ms));
    }
    pub fn timer(&mut self, tag: u32, delay_ms: u64) {
        self.timers.push((tag, delay_ms));
    }
}
/// The harness playing one entity (possibly non-conforming).
pub trait Peer: Send {
    fn start(&mut self, ctx: &mut PeerCtx);
    fn on_pdu(&mut self, from: Ent, pdu: &PDU, ctx: &mut PeerCtx);
    fn on_timer(&mut self, tag: u32, ctx: &mut PeerCtx);
}

pub struct Scenario {
    pub case: String,
    pub seed: u64,
    pub entities: Vec<EntityCfg>,
    pub transfers: Vec<TransferSpec>,
    pub rules: Vec<Rule>,
    pub scripts: Vec<Script>,
    pub peers: Vec<(Ent, Box<dyn Peer>)>,
    /// one-way latency
    pub latency_ms: u64,
    /// serialisation time of one PDU in `request()` (0 = the whole pass leaves in one instant)
    pub tx_ms: u64,
    /// give every delivery its own virtual instant
    pub paced: bool,
    pub observe_ms: u64,
    /// stop early once everything has ended and this much time has passed
    pub min_observe_ms: u64,
    /// after the observation window: heal the link, run one more transfer 0 -> 1 and report on it
    pub probe: bool,
    /// send a Report primitive for every transaction at the end
    pub final_reports: bool,
    /// files (Some) / directories (None) planted under an entity's root before the run
    pub plant: Vec<(Ent, String, Option<Vec<u8>>)>,
    /// adaptive random loss that stays inside the C02 hypothesis (see `Dropper`)
    pub dropper: Option<Dropper>,
    /// first transaction sequence number of every daemon (None = 2-byte 1)
    pub seq_start: Option<Vec<VariableID>>,
    /// transaction ids known in advance (transfers played by a scripted sender): lets user primitives address them
    pub preset_ids: Vec<(usize, TransactionID)>,
    /// transfers whose Put is fire-and-forget: the user drops the reply channel before the daemon answers
    pub forget_puts: Vec<usize>,
    /// (entity, n): that entity's transport accepts n PDUs and then never returns from `request` again
    /// (a flow-controlled link that has stalled: back-pressure instead of loss)
    pub stall_after: Vec<(Ent, usize)>,
    /// sparse files of a given length planted under an entity's root (huge sources without the bytes)
    pub plant_sparse: Vec<(Ent, String, u64)>,
}

/// A configuration that differs from `c` in every observable respect. The daemons are given the real
/// configuration per remote entity and this decoy as their *default*, so that any code path that picks
/// the default instead of the per-entity configuration shows at the boundary.
pub fn decoy_config(c: &EntityConfig) -> EntityConfig {
    let mut d = c.clone();
    d.nak_procedure = match c.nak_procedure {
        NakProcedure::Deferred(x) => NakProcedure::Immediate(x),
        NakProcedure::Immediate(x) => NakProcedure::Deferred(x),
    };
    d.crc_flag = if c.crc_flag == CRCFlag::Present { CRCFlag::NotPresent } else { CRCFlag::Present };
    d.closure_requested = !c.closure_requested;
    d.checksum_type = if c.checksum_type == ChecksumType::Modular { ChecksumType::Null } else { ChecksumType::Modular };
    d.file_size_segment = c.file_size_segment + 8;
    d.inactivity_timeout = c.inactivity_timeout + 1;
    d.ack_timeout = c.ack_timeout + 1;
    d.nak_timeout = c.nak_timeout + 1;
    d.default_transaction_max_count = c.default_transaction_max_count + 1;
    d.fault_handler_override = HashMap::new();
    d
}

/// Adaptive loss: every PDU is dropped with probability p, subject to budgets that keep every
/// retransmission counter of the protocol below its limit: at most `limit-1` drops among
/// {EOF, ACK(EOF)}, at most `limit-1` among {Finished, ACK(Finished)}, and at most `limit-1` among
/// {NAK, retransmitted data / metadata} since new file data last reached the receiver (counted from the
/// start as long as the metadata has not been delivered). First
/// transmissions of data and metadata may be dropped without limit.
#[derive(Clone, Debug)]
pub struct Dropper {
    pub seed: u64,
    pub p_num: u64,
    pub p_den: u64,
    pub limit: u32,
}
#[derive(Default)]
struct DropTr {
    eof_used: u32,
    fin_used: u32,
    nak_used: u32,
    cursor: u64,
    md_sent: bool,
    /// a Metadata PDU has been delivered (until then new file data does not refill the NAK budget: the
    /// outstanding metadata request shares the receiver's NAK counter and is not helped by data)
    md_delivered: bool,
    covered: Vec<bool>,
}
struct DropState {
    cfg: Dropper,
    rng: crate::util::Rng,
    tr: HashMap<(u64, u64), DropTr>,
}

// ------------------------------------------------------------------------------------ log

#[derive(Clone, Debug)]
pub enum Ev {
    Emit { ent: Ent, idx: usize, to: Ent, kind: Kind, pdu: PDU, len: usize, fate: String },
    Arrive { ent: Ent, idx: usize, kind: Kind, pdu: Option<PDU>, err: Option<String>, origin: Option<(Ent, usize)> },
    Ind { ent: Ent, ind: Indication },
    Prim { ent: Ent, what: PrimKind, id: Option<TransactionID>, tr: usize },
    Put { ent: Ent, tr: usize, id: Option<TransactionID> },
    ReportAnswer { ent: Ent, id: TransactionID, report: Option<StatusReport> },
    Task(TaskEvent),
    /// content found under the destination name of transfer `tr` (None = no such file)
    Dest { tr: usize, content: Option<Vec<u8>>, why: &'static str },
    /// side-effect marker file of transfer `tr` (filestore request target)
    Marker { tr: usize, content: Option<Vec<u8>> },
    DaemonExit { ent: Ent },
    Note(String),
}
#[derive(Clone, Debug)]
pub struct Rec {
    pub t_us: u64,
    pub ev: Ev,
}

pub struct RunLog {
    pub recs: Vec<Rec>,
    pub ids: Vec<Option<TransactionID>>,
    pub end_us: u64,
    pub probe: Option<ProbeResult>,
    pub daemons_alive: Vec<bool>,
    pub tasks_alive_at_end: Vec<(TransactionID, TaskKind)>,
    pub budget_exceeded: bool,
    pub roots: Vec<String>,
    /// complete tree of every real entity's root at the end of the observation window
    pub trees: Vec<std::collections::BTreeMap<String, Option<Vec<u8>>>>,
}
#[derive(Clone, Debug)]
pub struct ProbeResult {
    pub id: Option<TransactionID>,
    pub recv_success: bool,
    pub send_success: bool,
    pub file_ok: bool,
    pub report_answered: bool,
}

struct Shared {
    log: Mutex<Vec<Rec>>,
    t0: tokio::time::Instant,
    emit_count: Mutex<Vec<usize>>,
    arrive_count: Mutex<Vec<usize>>,
    ids_by_entity: Vec<u16>,
    tx_ms: u64,
    stall_after: Vec<(Ent, usize)>,
    sched: UnboundedSender<Msg>,
    budget: usize,
    over_budget: AtomicBool,
}
impl Shared {
    fn now_us(&self) -> u64 {
        self.t0.elapsed().as_micros() as u64
    }
    fn push(&self, ev: Ev) {
        let t = self.now_us();
        let mut l = self.log.lock().unwrap();
        if l.len() >= self.budget {
            self.over_budget.store(true, Ordering::SeqCst);
            return;
        }
        l.push(Rec { t_us: t, ev });
    }
    fn ent_of(&self, id: &VariableID) -> Option<Ent> {
        let v = id.to_u64();
        self.ids_by_entity.iter().position(|x| *x as u64 == v)
    }
}

enum Msg {
    Emitted { ent: Ent, idx: usize, to: Option<Ent>, kind: Kind, bytes: Vec<u8> },
    Arrived { ent: Ent, idx: usize, kind: Kind },
    Ind { ent: Ent, kind: IndKind },
}

struct SimTransport {
    me: Ent,
    shared: Arc<Shared>,
    inbox: UnboundedReceiver<(Vec<u8>, Option<(Ent, usize)>)>,
}

#[async_trait]
impl PDUTransport for SimTransport {
    async fn request(&mut self, destination: VariableID, pdu: PDU) -> Result<(), IoError> {
        if let Some((_, n)) = self.shared.stall_after.iter().find(|(e, _)| *e == self.me) {
            if self.shared.emit_count.lock().unwrap()[self.me] >= *n {
                // the link has stalled: this PDU (and everything behind it) is never taken
                return std::future::pending().await;
            }
        }
        let bytes = pdu.clone().encode();
        let to = self.shared.ent_of(&destination);
        let kind = kind_of(&pdu);
        let idx = {
            let mut c = self.shared.emit_count.lock().unwrap();
            let i = c[self.me];
            c[self.me] += 1;
            i
        };
        self.shared.push(Ev::Emit { ent: self.me, idx, to: to.unwrap_or(usize::MAX), kind, pdu, len: bytes.len(), fate: String::new() });
        let _ = self.shared.sched.send(Msg::Emitted { ent: self.me, idx, to, kind, bytes });
        if self.shared.tx_ms > 0 {
            tokio::time::sleep(Duration::from_millis(self.shared.tx_ms)).await;
        }
        Ok(())
    }

    async fn receive(&mut self) -> Result<PDU, IoError> {
        match self.inbox.recv().await {
            Some((bytes, origin)) => {
                let idx = {
                    let mut c = self.shared.arrive_count.lock().unwrap();
                    let i = c[self.me];
                    c[self.me] += 1;
                    i
                };
                // exactly what UdpTransport does with a datagram
                match PDU::decode(&mut bytes.as_slice()) {
                    Ok(pdu) => {
                        let kind = kind_of(&pdu);
                        self.shared.push(Ev::Arrive { ent: self.me, idx, kind, pdu: Some(pdu.clone()), err: None, origin });
                        let _ = self.shared.sched.send(Msg::Arrived { ent: self.me, idx, kind });
                        Ok(pdu)
                    }
                    Err(e) => {
                        self.shared.push(Ev::Arrive { ent: self.me, idx, kind: Kind::Undecodable, pdu: None, err: Some(e.to_string()), origin });
                        let _ = self.shared.sched.send(Msg::Arrived { ent: self.me, idx, kind: Kind::Undecodable });
                        Err(IoError::new(std::io::ErrorKind::InvalidData, e.to_string()))
                    }
                }
            }
            None => std::future::pending().await,
        }
    }
}

// ------------------------------------------------------------------------------------ scheduler

enum ItemKind {
    Deliver { to: Ent, bytes: Vec<u8>, origin: Option<(Ent, usize)> },
    DoAct(Act),
    PeerTimer { peer: Ent, tag: u32 },
    Put(usize),
}
struct Item {
    at_us: u64,
    seq: u64,
    kind: ItemKind,
}
impl PartialEq for Item {
    fn eq(&self, o: &Self) -> bool {
        self.at_us == o.at_us && self.seq == o.seq
    }
}
impl Eq for Item {}
impl PartialOrd for Item {
    fn partial_cmp(&self, o: &Self) -> Option<std::cmp::Ordering> {
        Some(self.cmp(o))
    }
}
impl Ord for Item {
    fn cmp(&self, o: &Self) -> std::cmp::Ordering {
        // BinaryHeap is a max-heap: reverse
        (o.at_us, o.seq).cmp(&(self.at_us, self.seq))
    }
}

pub fn default_config() -> EntityConfig {
    EntityConfig {
        fault_handler_override: HashMap::new(),
        file_size_segment: 64,
        default_transaction_max_count: 3,
        inactivity_timeout: 10,
        ack_timeout: 3,
        nak_timeout: 4,
        crc_flag: CRCFlag::NotPresent,
        closure_requested: false,
        checksum_type: ChecksumType::Modular,
        nak_procedure: NakProcedure::Deferred(Duration::ZERO),
    }
}

/// Termination bound B (DESIGN §3) for one entity configuration, in ms.
pub fn bound_ms(c: &EntityConfig, max_link_delay_ms: u64) -> u64 {
    let l = c.default_transaction_max_count as u64;
    let d = match c.nak_procedure {
        NakProcedure::Immediate(d) | NakProcedure::Deferred(d) => d.as_millis() as u64,
    };
    2 * l * (c.inactivity_timeout + c.ack_timeout + c.nak_timeout) as u64 * 1000 + d + 4 * max_link_delay_ms + 10_000
}

struct Sched {
    shared: Arc<Shared>,
    queue: BinaryHeap<Item>,
    seq: u64,
    /// paced mode: the virtual milliseconds already given to a delivery
    used_slots: std::collections::BTreeSet<u64>,
    paced: bool,
    latency_us: u64,
    rules: Vec<Rule>,
    rules_on: bool,
    dir_count: HashMap<(Ent, Ent), usize>,
    dir_kind_count: HashMap<(Ent, Ent, Kind), usize>,
    ent_kind_emit: HashMap<(Ent, Kind), usize>,
    ent_kind_arrive: HashMap<(Ent, Kind), usize>,
    ent_ind: HashMap<(Ent, IndKind), usize>,
    scripts: Vec<(Script, bool)>,
    emitted: Vec<Vec<(Option<Ent>, Vec<u8>, Kind)>>,
    inboxes: Vec<Option<UnboundedSender<(Vec<u8>, Option<(Ent, usize)>)>>>,
    prim_tx: Vec<Option<tokio::sync::mpsc::Sender<UserPrimitive>>>,
    peers: HashMap<Ent, Box<dyn Peer>>,
    transfers: Vec<TransferSpec>,
    forget_puts: Vec<usize>,
    ids: Arc<Mutex<Vec<Option<TransactionID>>>>,
    roots: Vec<String>,
    dest_seen: Vec<Option<Option<Vec<u8>>>>,
    marker_seen: Vec<Option<Option<Vec<u8>>>>,
    faults_applied: usize,
    dropper: Option<DropState>,
}

impl Sched {
    /// adaptive loss decision for one emission (None = not handled by the dropper)
    fn dropper_decides(&mut self, bytes: &[u8]) -> bool {
        let ds = match self.dropper.as_mut() {
            Some(d) => d,
            None => return false,
        };
        let pdu = match PDU::decode(&mut &bytes[..]) {
            Ok(p) => p,
            Err(_) => return false,
        };
        let key = (pdu.header.source_entity_id.to_u64(), pdu.header.transaction_sequence_number.to_u64());
        let lim = ds.cfg.limit.saturating_sub(1);
        let t = ds.tr.entry(key).or_default();
        // classify
        #[derive(PartialEq)]
        enum C {
            First,
            Eof,
            Fin,
            Nak,
            Free,
        }
        let class = match &pdu.payload {
            PDUPayload::FileData(FileDataPDU::Unsegmented(u)) => {
                if u.offset == t.cursor {
                    t.cursor += u.file_data.len() as u64;
                    C::First
                } else {
                    C::Nak
                }
            }
            PDUPayload::FileData(_) => C::Free,
            PDUPayload::Directive(op) => match op {
                Operations::Metadata(_) => {
                    if !t.md_sent {
                        t.md_sent = true;
                        C::First
                    } else {
                        C::Nak
                    }
                }
                Operations::EoF(_) => C::Eof,
                Operations::Ack(a) => {
                    if a.directive == PDUDirective::Finished {
                        C::Fin
                    } else {
                        C::Eof
                    }
                }
                Operations::Finished(_) => C::Fin,
                Operations::Nak(_) => C::Nak,
                _ => C::Free,
            },
        };
        if class == C::Free || !ds.rng.chance(ds.cfg.p_num, ds.cfg.p_den) {
            return false;
        }
        match class {
            C::First => true,
            C::Eof => {
                if t.eof_used < lim {
                    t.eof_used += 1;
                    true
                } else {
                    false
                }
            }
            C::Fin => {
                if t.fin_used < lim {
                    t.fin_used += 1;
                    true
                } else {
                    false
                }
            }
            C::Nak => {
                if t.nak_used < lim {
                    t.nak_used += 1;
                    true
                } else {
                    false
                }
            }
            C::Free => false,
        }
    }
    /// a delivery of new file data refills the NAK-phase budget
    fn dropper_sees_delivery(&mut self, bytes: &[u8]) {
        if let Some(ds) = self.dropper.as_mut() {
            if let Ok(PDU { header, payload: PDUPayload::Directive(Operations::Metadata(_)) }) = PDU::decode(&mut &bytes[..]) {
                let key = (header.source_entity_id.to_u64(), header.transaction_sequence_number.to_u64());
                ds.tr.entry(key).or_default().md_delivered = true;
            }
            if let Ok(PDU { header, payload: PDUPayload::FileData(FileDataPDU::Unsegmented(u)) }) = PDU::decode(&mut &bytes[..]) {
                let key = (header.source_entity_id.to_u64(), header.transaction_sequence_number.to_u64());
                let t = ds.tr.entry(key).or_default();
                let end = u.offset as usize + u.file_data.len();
                if end <= 1 << 20 {
                    if t.covered.len() < end {
                        t.covered.resize(end, false);
                    }
                    let mut newb = false;
                    for c in t.covered[u.offset as usize..end].iter_mut() {
                        if !*c {
                            *c = true;
                            newb = true;
                        }
                    }
                    if newb && t.md_delivered {
                        t.nak_used = 0;
                    }
                }
            }
        }
    }

    fn slot(&mut self, want_us: u64) -> u64 {
        if self.paced {
            // the first free millisecond at or after the wanted instant: every delivery has a millisecond
            // of its own, and a delayed PDU is overtaken by later ones (it does not stall the link)
            let mut ms = (want_us + 999) / 1000;
            while !self.used_slots.insert(ms) {
                ms += 1;
            }
            if self.used_slots.len() > 8192 {
                let now_ms = self.shared.now_us() / 1000;
                self.used_slots = self.used_slots.split_off(&now_ms);
            }
            ms * 1000
        } else {
            want_us
        }
    }
    fn push_item(&mut self, at_us: u64, kind: ItemKind) {
        self.seq += 1;
        self.queue.push(Item { at_us, seq: self.seq, kind });
    }
    fn set_fate(&self, ent: Ent, idx: usize, fate: &str) {
        let mut l = self.shared.log.lock().unwrap();
        for r in l.iter_mut().rev() {
            if let Ev::Emit { ent: e, idx: i, fate: f, .. } = &mut r.ev {
                if *e == ent && *i == idx {
                    *f = fate.to_string();
                    break;
                }
            }
        }
    }

    fn on_emitted(&mut self, ent: Ent, idx: usize, to: Option<Ent>, kind: Kind, bytes: Vec<u8>) {
        let now = self.shared.now_us();
        while self.emitted.len() <= ent {
            self.emitted.push(vec![]);
        }
        self.emitted[ent].push((to, bytes.clone(), kind));
        *self.ent_kind_emit.entry((ent, kind)).or_insert(0) += 1;
        let nk_ent = self.ent_kind_emit[&(ent, kind)] - 1;
        if let Some(to) = to {
            let di = *self.dir_count.get(&(ent, to)).unwrap_or(&0);
            let dk = *self.dir_kind_count.get(&(ent, to, kind)).unwrap_or(&0);
            self.dir_count.insert((ent, to), di + 1);
            self.dir_kind_count.insert((ent, to, kind), dk + 1);
            // which rules hit
            let fd_off: Option<u64> = if kind == Kind::FileData {
                match PDU::decode(&mut bytes.as_slice()) {
                    Ok(PDU { payload: PDUPayload::FileData(FileDataPDU::Unsegmented(u)), .. }) => Some(u.offset),
                    _ => None,
                }
            } else {
                None
            };
            let mut drop = false;
            let mut extra: Vec<u64> = vec![];
            let mut delay_ms = 0u64;
            let mut bytes = bytes;
            let mut fate = String::new();
            if self.rules_on {
                for r in &self.rules {
                    if r.from != ent || r.to != to {
                        continue;
                    }
                    let hit = match &r.m {
                        Matcher::Nth(n) => *n == di,
                        Matcher::KindNth(k, n) => *k == kind && *n == dk,
                        Matcher::FromIdx(n) => di >= *n,
                        Matcher::FromTime(t) => now / 1000 >= *t,
                        Matcher::KindAll(k) => *k == kind,
                        Matcher::KindFrom(k, n) => *k == kind && dk >= *n,
                        Matcher::FdOffset(o) => fd_off == Some(*o),
                    };
                    if !hit {
                        continue;
                    }
                    self.faults_applied += 1;
                    match &r.a {
                        Action::Drop => {
                            drop = true;
                            fate.push_str("drop ");
                        }
                        Action::Dup(n, sp) => {
                            for j in 1..=*n {
                                extra.push(j as u64 * *sp);
                            }
                            fate.push_str(&format!("dup{} ", n));
                        }
                        Action::Delay(d) => {
                            delay_ms += *d;
                            fate.push_str(&format!("delay{} ", d));
                        }
                        Action::Corrupt(off, x) => {
                            // header length: 4 fixed octets + ids
                            let hl = 4 + 2 * (((bytes[3] >> 4) & 7) as usize + 1) + ((bytes[3] & 7) as usize + 1);
                            let p = (hl + *off).min(bytes.len() - 1);
                            bytes[p] ^= *x;
                            fate.push_str("corrupt ");
                        }
                    }
                }
            }
            if !drop && self.rules_on && self.dropper.is_some() && self.dropper_decides(&bytes) {
                drop = true;
                self.faults_applied += 1;
                fate.push_str("drop ");
            }
            if !fate.is_empty() {
                self.set_fate(ent, idx, fate.trim());
            }
            if !drop {
                let at = self.slot(now + self.latency_us + delay_ms * 1000);
                self.push_item(at, ItemKind::Deliver { to, bytes: bytes.clone(), origin: Some((ent, idx)) });
                for e in extra {
                    let at = self.slot(now + self.latency_us + (delay_ms + e) * 1000);
                    self.push_item(at, ItemKind::Deliver { to, bytes: bytes.clone(), origin: Some((ent, idx)) });
                }
            }
        } else {
            self.set_fate(ent, idx, "no-such-entity");
        }
        self.fire(|t| match t {
            Trigger::AfterEmit(e, n) => *e == ent && *n == idx,
            Trigger::AfterEmitKind(e, k, n) => *e == ent && *k == kind && *n == nk_ent,
            _ => false,
        });
    }

    fn on_arrived(&mut self, ent: Ent, idx: usize, kind: Kind) {
        *self.ent_kind_arrive.entry((ent, kind)).or_insert(0) += 1;
        let nk = self.ent_kind_arrive[&(ent, kind)] - 1;
        self.observe_files("after-arrival");
        self.fire(|t| match t {
            Trigger::AfterArrive(e, n) => *e == ent && *n == idx,
            Trigger::AfterArriveKind(e, k, n) => *e == ent && *k == kind && *n == nk,
            _ => false,
        });
    }
    fn on_ind(&mut self, ent: Ent, kind: IndKind) {
        *self.ent_ind.entry((ent, kind)).or_insert(0) += 1;
        let n = self.ent_ind[&(ent, kind)] - 1;
        if kind == IndKind::Finished {
            self.observe_files_force("at-finished-indication");
        } else if kind != IndKind::FileSegmentRecv && kind != IndKind::Report {
            self.observe_files("after-indication");
        }
        self.fire(|t| matches!(t, Trigger::AfterInd(e, k, m) if *e == ent && *k == kind && *m == n));
    }

    fn fire(&mut self, pred: impl Fn(&Trigger) -> bool) {
        let now = self.shared.now_us();
        let mut acts = vec![];
        for (s, done) in self.scripts.iter_mut() {
            if !*done && pred(&s.trig) {
                *done = true;
                acts.push((s.delay_ms, s.act.clone()));
            }
        }
        for (d, a) in acts {
            if d == 0 {
                self.do_act(a);
            } else {
                let at = self.slot(now + d * 1000);
                self.push_item(at, ItemKind::DoAct(a));
            }
        }
    }

    fn do_act(&mut self, a: Act) {
        match a {
            Act::Prim(ent, what, tr) => {
                let id = self.ids.lock().unwrap().get(tr).cloned().flatten();
                self.shared.push(Ev::Prim { ent, what, id, tr });
                if let (Some(id), Some(Some(tx))) = (id, self.prim_tx.get(ent)) {
                    let p = match what {
                        PrimKind::Cancel => UserPrimitive::Cancel(id),
                        PrimKind::Suspend => UserPrimitive::Suspend(id),
                        PrimKind::Resume => UserPrimitive::Resume(id),
                        PrimKind::PromptNak => UserPrimitive::Prompt(id, NakOrKeepAlive::Nak),
                        PrimKind::PromptKeepAlive => UserPrimitive::Prompt(id, NakOrKeepAlive::KeepAlive),
                        PrimKind::Report => {
                            let (otx, orx) = tokio::sync::oneshot::channel();
                            let sh = self.shared.clone();
                            tokio::spawn(async move {
                                let r = orx.await.ok();
                                sh.push(Ev::ReportAnswer { ent, id, report: r });
                            });
                            UserPrimitive::Report(id, otx)
                        }
                    };
                    let _ = tx.try_send(p);
                }
            }
            Act::Redeliver(ent, idx) => {
                if let Some((Some(to), bytes, _)) = self.emitted.get(ent).and_then(|v| v.get(idx)).cloned() {
                    let now = self.shared.now_us();
                    let at = self.slot(now + self.latency_us);
                    self.push_item(at, ItemKind::Deliver { to, bytes, origin: Some((ent, idx)) });
                    self.faults_applied += 1;
                }
            }
            Act::RedeliverKind(ent, kind, n) => {
                let found = self.emitted.get(ent).and_then(|v| v.iter().enumerate().filter(|(_, x)| x.2 == kind).nth(n).map(|(i, _)| i));
                if let Some(i) = found {
                    self.do_act(Act::Redeliver(ent, i));
                }
            }
            Act::Inject(to, bytes) => {
                let now = self.shared.now_us();
                let at = self.slot(now + 1000);
                self.push_item(at, ItemKind::Deliver { to, bytes, origin: None });
                self.faults_applied += 1;
            }
            Act::AddRule(r) => {
                self.shared.push(Ev::Note(format!("rule added: e{}->e{} {:?} {:?}", r.from, r.to, r.m, r.a)));
                self.rules.push(r);
            }
            Act::HealLink => {
                self.rules_on = false;
                self.shared.push(Ev::Note("link healed".into()));
            }
        }
    }

    fn exec(&mut self, it: ItemKind) {
        match it {
            ItemKind::Deliver { to, bytes, origin } => {
                self.dropper_sees_delivery(&bytes);
                if let Some(Some(tx)) = self.inboxes.get(to) {
                    let _ = tx.send((bytes, origin));
                } else if self.peers.contains_key(&to) {
                    let mut ctx = PeerCtx { now_ms: self.shared.now_us() / 1000, sends: vec![], raw: vec![], timers: vec![] };
                    let from = origin.map(|o| o.0).unwrap_or(usize::MAX);
                    match PDU::decode(&mut bytes.as_slice()) {
                        Ok(p) => {
                            let idx = {
                                let mut c = self.shared.arrive_count.lock().unwrap();
                                let i = c[to];
                                c[to] += 1;
                                i
                            };
                            self.shared.push(Ev::Arrive { ent: to, idx, kind: kind_of(&p), pdu: Some(p.clone()), err: None, origin });
                            if let Some(peer) = self.peers.get_mut(&to) {
                                peer.on_pdu(from, &p, &mut ctx);
                            }
                            self.peer_out(to, ctx);
                        }
                        Err(_) => {}
                    }
                }
            }
            ItemKind::DoAct(a) => self.do_act(a),
            ItemKind::PeerTimer { peer, tag } => {
                let mut ctx = PeerCtx { now_ms: self.shared.now_us() / 1000, sends: vec![], raw: vec![], timers: vec![] };
                if let Some(p) = self.peers.get_mut(&peer) {
                    p.on_timer(tag, &mut ctx);
                }
                self.peer_out(peer, ctx);
            }
            ItemKind::Put(tr) => self.put(tr),
        }
    }

    /// PDUs sent by a scripted peer go through the same log (as emissions of that entity) but not
    /// through the fault rules: the peer decides itself what reaches the daemon.
    fn peer_out(&mut self, me: Ent, ctx: PeerCtx) {
        let now = self.shared.now_us();
        for (to, pdu, d) in ctx.sends {
            let bytes = pdu.clone().encode();
            let idx = {
                let mut c = self.shared.emit_count.lock().unwrap();
                let i = c[me];
                c[me] += 1;
                i
            };
            let kind = kind_of(&pdu);
            self.shared.push(Ev::Emit { ent: me, idx, to, kind, pdu, len: bytes.len(), fate: "scripted".into() });
            while self.emitted.len() <= me {
                self.emitted.push(vec![]);
            }
            self.emitted[me].push((Some(to), bytes.clone(), kind));
            let at = self.slot(now + self.latency_us + d * 1000);
            self.push_item(at, ItemKind::Deliver { to, bytes, origin: Some((me, idx)) });
        }
        for (to, bytes, d) in ctx.raw {
            let at = self.slot(now + self.latency_us + d * 1000);
            self.push_item(at, ItemKind::Deliver { to, bytes, origin: None });
        }
        for (tag, d) in ctx.timers {
            let at = self.slot(now + d * 1000);
            self.push_item(at, ItemKind::PeerTimer { peer: me, tag });
        }
    }

    fn put(&mut self, tr: usize) {
        let t = self.transfers[tr].clone();
        if let Some(Some(tx)) = self.prim_tx.get(t.src) {
            let req = PutRequest {
                source_filename: Utf8PathBuf::from(t.src_name.clone()),
                destination_filename: Utf8PathBuf::from(t.dst_name.clone()),
                destination_entity_id: VariableID::from(self.shared.ids_by_entity[t.dst]),
                transmission_mode: t.mode,
                filestore_requests: t.requests.clone(),
                message_to_user: vec![],
            };
            let (otx, orx) = tokio::sync::oneshot::channel();
            if self.forget_puts.contains(&tr) {
                // fire and forget: nobody waits for the transaction id
                drop(orx);
                let _ = tx.try_send(UserPrimitive::Put(req, otx));
                self.shared.push(Ev::Put { ent: t.src, tr, id: None });
                return;
            }
            let _ = tx.try_send(UserPrimitive::Put(req, otx));
            let ids = self.ids.clone();
            let sh = self.shared.clone();
            let src = t.src;
            tokio::spawn(async move {
                let id = orx.await.ok();
                {
                    let mut g = ids.lock().unwrap();
                    while g.len() <= tr {
                        g.push(None);
                    }
                    g[tr] = id;
                }
                sh.push(Ev::Put { ent: src, tr, id });
            });
        }
    }

    fn dest_path(&self, tr: usize) -> Option<String> {
        let t = &self.transfers[tr];
        if t.dst_name.is_empty() || self.roots.get(t.dst).map(|r| r.is_empty()).unwrap_or(true) {
            return None;
        }
        Some(format!("{}/{}", self.roots[t.dst], t.dst_name))
    }
    fn observe_files(&mut self, why: &'static str) {
        self.observe_inner(why, false)
    }
    fn observe_files_force(&mut self, why: &'static str) {
        self.observe_inner(why, true)
    }
    fn observe_inner(&mut self, why: &'static str, force: bool) {
        for tr in 0..self.transfers.len() {
            if let Some(p) = self.dest_path(tr) {
                let cur = std::fs::read(&p).ok();
                while self.dest_seen.len() <= tr {
                    self.dest_seen.push(None);
                }
                if force || self.dest_seen[tr].as_ref() != Some(&cur) {
                    self.dest_seen[tr] = Some(cur.clone());
                    self.shared.push(Ev::Dest { tr, content: cur, why });
                }
            }
            // marker file of non-idempotent requests
            let t = &self.transfers[tr];
            if !t.requests.is_empty() {
                let mp = format!("{}/marker{}", self.roots[t.dst], tr);
                let cur = std::fs::read(&mp).ok();
                while self.marker_seen.len() <= tr {
                    self.marker_seen.push(None);
                }
                if self.marker_seen[tr].as_ref() != Some(&cur) {
                    self.marker_seen[tr] = Some(cur.clone());
                    self.shared.push(Ev::Marker { tr, content: cur });
                }
            }
        }
    }
}

fn tasks_alive(log: &[Rec]) -> Vec<(TransactionID, TaskKind)> {
    let mut alive: Vec<(TransactionID, TaskKind)> = vec![];
    for r in log {
        if let Ev::Task(te) = &r.ev {
            match te {
                TaskEvent::Start(id, k) => alive.push((*id, *k)),
                TaskEvent::End(id, k) => {
                    if let Some(p) = alive.iter().position(|x| x.0 == *id && x.1 == *k) {
                        alive.remove(p);
                    }
                }
                TaskEvent::Spin(..) => {}
            }
        }
    }
    alive
}

/// Run one scenario on a fresh paused runtime. `scratch` is a private directory for the roots.
pub fn run(mut sc: Scenario, scratch: &str) -> RunLog {
    let n = sc.entities.len();
    let mut roots = vec![];
    for i in 0..n {
        if sc.entities[i].scripted {
            roots.push(String::new());
        } else {
            let r = format!("{}/e{}", scratch, i);
            let _ = std::fs::remove_dir_all(&r);
            std::fs::create_dir_all(&r).expect("create root");
            roots.push(r);
        }
    }
    for (k, t) in sc.transfers.iter().enumerate() {
        if !t.src_name.is_empty() && !sc.entities[t.src].scripted {
            std::fs::write(format!("{}/{}", roots[t.src], t.src_name), &t.content).expect("write source");
        }
        if !sc.entities[t.dst].scripted {
            if let Some(st) = &t.stale_dest {
                std::fs::write(format!("{}/{}", roots[t.dst], t.dst_name), st).expect("write stale");
            }
            if !t.requests.is_empty() {
                std::fs::write(format!("{}/marker{}", roots[t.dst], k), b"M").expect("write marker");
            }
        }
    }
    for (e, name, len) in &sc.plant_sparse {
        if !sc.entities[*e].scripted {
            let f = std::fs::File::create(format!("{}/{}", roots[*e], name)).expect("sparse file");
            f.set_len(*len).expect("set_len");
        }
    }
    for (e, name, content) in &sc.plant {
        if sc.entities[*e].scripted {
            continue;
        }
        let p = format!("{}/{}", roots[*e], name);
        match content {
            None => std::fs::create_dir_all(&p).expect("plant dir"),
            Some(c) => {
                if let Some(i) = p.rfind('/') {
                    let _ = std::fs::create_dir_all(&p[..i]);
                }
                std::fs::write(&p, c).expect("plant file")
            }
        }
    }
    let mut seed_bytes = [0u8; 32];
    seed_bytes[..8].copy_from_slice(&sc.seed.to_le_bytes());
    seed_bytes[8..16].copy_from_slice(&sc.seed.wrapping_mul(0x9E3779B97F4A7C15).to_le_bytes());
    let rt = tokio::runtime::Builder::new_current_thread()
        .enable_time()
        .start_paused(true)
        .rng_seed(tokio::runtime::RngSeed::from_bytes(&seed_bytes))
        .build()
        .expect("runtime");
    let roots2 = roots.clone();
    let out = rt.block_on(async move {
        let (stx, mut srx) = unbounded_channel::<Msg>();
        let shared = Arc::new(Shared {
            log: Mutex::new(Vec::with_capacity(512)),
            t0: tokio::time::Instant::now(),
            emit_count: Mutex::new(vec![0; n]),
            arrive_count: Mutex::new(vec![0; n]),
            ids_by_entity: sc.entities.iter().map(|e| e.id).collect(),
            tx_ms: sc.tx_ms,
            stall_after: sc.stall_after.clone(),
            sched: stx,
            budget: 60_000,
            over_budget: AtomicBool::new(false),
        });
        {
            let sh = shared.clone();
            cfdp_daemon::verif::set_sink(Some(Box::new(move |e| sh.push(Ev::Task(e)))));
        }
        let mut inboxes = vec![];
        let mut prim_tx = vec![];
        let mut daemon_handles: Vec<Option<tokio::task::JoinHandle<()>>> = vec![];
        for i in 0..n {
            if sc.entities[i].scripted {
                inboxes.push(None);
                prim_tx.push(None);
                daemon_handles.push(None);
                continue;
            }
            let (itx, irx) = unbounded_channel();
            inboxes.push(Some(itx));
            let (ptx, prx) = tokio::sync::mpsc::channel(4096);
            prim_tx.push(Some(ptx));
            let (indtx, mut indrx) = tokio::sync::mpsc::channel(100_000);
            let peers: Vec<EntityID> = (0..n).filter(|j| *j != i).map(|j| VariableID::from(sc.entities[j].id)).collect();
            let mut tmap: HashMap<Vec<EntityID>, Box<dyn PDUTransport + Send>> = HashMap::new();
            tmap.insert(peers, Box::new(SimTransport { me: i, shared: shared.clone(), inbox: irx }));
            // the real configuration for every known remote entity, a decoy as the default
            let mut per_entity: HashMap<VariableID, EntityConfig> = HashMap::new();
            for j in 0..n {
                if j != i {
                    per_entity.insert(VariableID::from(sc.entities[j].id), sc.entities[i].config.clone());
                }
            }
            let seq0 = sc.seq_start.as_ref().and_then(|v| v.get(i).cloned()).unwrap_or(VariableID::from(1u16));
            let mut daemon = Daemon::new(
                VariableID::from(sc.entities[i].id),
                seq0,
                tmap,
                Arc::new(NativeFileStore::new(Utf8PathBuf::from(roots2[i].clone()))),
                per_entity,
                decoy_config(&sc.entities[i].config),
                prx,
                indtx,
            );
            let sh = shared.clone();
            daemon_handles.push(Some(tokio::spawn(async move {
                let _ = daemon.manage_transactions().await;
                sh.push(Ev::DaemonExit { ent: i });
            })));
            let sh = shared.clone();
            tokio::spawn(async move {
                while let Some(ind) = indrx.recv().await {
                    let k = ind_kind(&ind);
                    sh.push(Ev::Ind { ent: i, ind });
                    let _ = sh.sched.send(Msg::Ind { ent: i, kind: k });
                }
            });
        }
        let ids = Arc::new(Mutex::new(vec![None; sc.transfers.len()]));
        for (tr, id) in &sc.preset_ids {
            if let Some(slot) = ids.lock().unwrap().get_mut(*tr) {
                *slot = Some(*id);
            }
        }
        let mut s = Sched {
            shared: shared.clone(),
            queue: BinaryHeap::new(),
            seq: 0,
            used_slots: std::collections::BTreeSet::new(),
            paced: sc.paced,
            latency_us: sc.latency_ms * 1000,
            rules: std::mem::take(&mut sc.rules),
            rules_on: true,
            dir_count: HashMap::new(),
            dir_kind_count: HashMap::new(),
            ent_kind_emit: HashMap::new(),
            ent_kind_arrive: HashMap::new(),
            ent_ind: HashMap::new(),
            scripts: std::mem::take(&mut sc.scripts).into_iter().map(|x| (x, false)).collect(),
            emitted: vec![vec![]; n],
            inboxes,
            prim_tx,
            peers: std::mem::take(&mut sc.peers).into_iter().collect(),
            transfers: sc.transfers.clone(),
            forget_puts: sc.forget_puts.clone(),
            ids: ids.clone(),
            roots: roots2.clone(),
            dest_seen: vec![],
            marker_seen: vec![],
            faults_applied: 0,
            dropper: sc.dropper.clone().map(|c| DropState { rng: crate::util::Rng::new(c.seed), cfg: c, tr: HashMap::new() }),
        };
        // initial items: puts, timed scripts, peer starts
        for (k, t) in sc.transfers.iter().enumerate() {
            if !sc.entities[t.src].scripted {
                s.push_item(t.start_ms * 1000, ItemKind::Put(k));
            }
        }
        let timed: Vec<(u64, u64, Act)> = s
            .scripts
            .iter_mut()
            .filter_map(|(sc, done)| {
                if let Trigger::At(t) = sc.trig {
                    *done = true;
                    Some((t, sc.delay_ms, sc.act.clone()))
                } else {
                    None
                }
            })
            .collect();
        for (t, d, a) in timed {
            s.push_item((t + d) * 1000, ItemKind::DoAct(a));
        }
        let peer_ids: Vec<Ent> = s.peers.keys().cloned().collect();
        for p in peer_ids {
            let mut ctx = PeerCtx { now_ms: 0, sends: vec![], raw: vec![], timers: vec![] };
            if let Some(pe) = s.peers.get_mut(&p) {
                pe.start(&mut ctx);
            }
            s.peer_out(p, ctx);
        }
        s.observe_files_force("initial");

        let end = shared.t0 + Duration::from_millis(sc.observe_ms);
        let mut quiet_since: Option<u64> = None;
        let mut ticker = tokio::time::interval(Duration::from_millis(1000));
        ticker.set_missed_tick_behavior(tokio::time::MissedTickBehavior::Delay);
        loop {
            let next = s.queue.peek().map(|i| shared.t0 + Duration::from_micros(i.at_us));
            tokio::select! {
                biased;
                Some(m) = srx.recv() => match m {
                    Msg::Emitted { ent, idx, to, kind, bytes } => s.on_emitted(ent, idx, to, kind, bytes),
                    Msg::Arrived { ent, idx, kind } => s.on_arrived(ent, idx, kind),
                    Msg::Ind { ent, kind } => s.on_ind(ent, kind),
                },
                _ = async { tokio::time::sleep_until(next.unwrap()).await }, if next.is_some() => {
                    let now = shared.now_us();
                    while let Some(top) = s.queue.peek() {
                        if top.at_us <= now {
                            let it = s.queue.pop().unwrap();
                            s.exec(it.kind);
                            if s.paced { break; }
                        } else { break; }
                    }
                }
                _ = ticker.tick() => {
                    if shared.over_budget.load(Ordering::SeqCst) { break; }
                    let now = shared.now_us();
                    let alive = { let l = shared.log.lock().unwrap(); tasks_alive(&l).len() };
                    let pending_scripts = s.scripts.iter().any(|(sc, d)| !*d && matches!(sc.trig, Trigger::At(_)));
                    if alive == 0 && s.queue.is_empty() && !pending_scripts && now / 1000 >= sc.min_observe_ms {
                        match quiet_since {
                            None => quiet_since = Some(now),
                            Some(q) => if now - q >= 3_000_000 { break; }
                        }
                    } else {
                        quiet_since = None;
                    }
                }
                _ = tokio::time::sleep_until(end) => break,
            }
        }
        s.observe_files_force("end-of-window");
        let end_us = shared.now_us();
        let trees: Vec<std::collections::BTreeMap<String, Option<Vec<u8>>>> = roots2.iter().map(|r| if r.is_empty() { Default::default() } else { snapshot_tree(r) }).collect();
        let alive_at_end = { let l = shared.log.lock().unwrap(); tasks_alive(&l) };

        // final reports: does the daemon still know the transaction?
        if sc.final_reports {
            let idv = ids.lock().unwrap().clone();
            for (tr, id) in idv.iter().enumerate() {
                if id.is_some() {
                    let t = &sc.transfers[tr];
                    for e in [t.src, t.dst] {
                        if !sc.entities[e].scripted {
                            s.do_act(Act::Prim(e, PrimKind::Report, tr));
                        }
                    }
                }
            }
            tokio::time::sleep(Duration::from_millis(5)).await;
            while let Ok(m) = srx.try_recv() {
                if let Msg::Ind { ent, kind } = m { s.on_ind(ent, kind) }
            }
        }

        // probe: the daemons still serve a fresh transfer over a clean link
        let mut probe = None;
        if sc.probe && n >= 2 && !sc.entities[0].scripted && !sc.entities[1].scripted {
            s.rules_on = false;
            s.scripts.clear();
            // slow enough for the Report request below to find the transaction alive
            s.latency_us = s.latency_us.max(5_000);
            s.paced = true;
            let content: Vec<u8> = (0..150u32).map(|i| (i * 7 + 3) as u8).collect();
            std::fs::write(format!("{}/probe_src", roots2[0]), &content).ok();
            let tr = s.transfers.len();
            s.transfers.push(TransferSpec { src: 0, dst: 1, mode: TransmissionMode::Acknowledged, content: content.clone(), src_name: "probe_src".into(), dst_name: "probe_dst".into(), requests: vec![], start_ms: 0, stale_dest: None });
            s.put(tr);
            let pend = tokio::time::Instant::now() + Duration::from_millis(120_000);
            let mut res = ProbeResult { id: None, recv_success: false, send_success: false, file_ok: false, report_answered: false };
            let mut asked_report = false;
            let mut next_poll = tokio::time::Instant::now() + Duration::from_millis(2);
            loop {
                let next = s.queue.peek().map(|i| shared.t0 + Duration::from_micros(i.at_us));
                tokio::select! {
                    biased;
                    Some(m) = srx.recv() => match m {
                        Msg::Emitted { ent, idx, to, kind, bytes } => s.on_emitted(ent, idx, to, kind, bytes),
                        Msg::Arrived { ent, idx, kind } => s.on_arrived(ent, idx, kind),
                        Msg::Ind { ent, kind } => s.on_ind(ent, kind),
                    },
                    _ = async { tokio::time::sleep_until(next.unwrap()).await }, if next.is_some() => {
                        let now = shared.now_us();
                        while let Some(top) = s.queue.peek() {
                            if top.at_us <= now { let it = s.queue.pop().unwrap(); s.exec(it.kind); if s.paced { break; } } else { break; }
                        }
                    }
                    // (an absolute deadline: in paced mode there is an event every millisecond and a
                    // relative sleep re-created by each loop iteration would never fire in time)
                    _ = tokio::time::sleep_until(next_poll) => {
                        next_poll = tokio::time::Instant::now() + Duration::from_millis(500);
                        let pid = ids.lock().unwrap().get(tr).cloned().flatten();
                        res.id = pid;
                        if let Some(pid) = pid {
                            if !asked_report {
                                asked_report = true;
                                s.do_act(Act::Prim(0, PrimKind::Report, tr));
                            }
                            let l = shared.log.lock().unwrap();
                            for r in l.iter() {
                                match &r.ev {
                                    Ev::Ind { ent, ind: Indication::Finished(f) } if f.id == pid => {
                                        let ok = f.report.condition == Condition::NoError && f.delivery_code == DeliveryCode::Complete && f.file_status == FileStatusCode::Retained;
                                        if *ent == 1 && ok { res.recv_success = true; }
                                        if *ent == 0 && ok { res.send_success = true; }
                                    }
                                    Ev::ReportAnswer { id, report: Some(_), .. } if *id == pid => res.report_answered = true,
                                    _ => {}
                                }
                            }
                        }
                        if res.recv_success && res.send_success && res.report_answered { break; }
                    }
                    _ = tokio::time::sleep_until(pend) => break,
                }
            }
            res.file_ok = std::fs::read(format!("{}/probe_dst", roots2[1])).ok().as_deref() == Some(content.as_slice());
            probe = Some(res);
        }
        let daemons_alive: Vec<bool> = daemon_handles.iter().map(|h| h.as_ref().map(|h| !h.is_finished()).unwrap_or(true)).collect();
        cfdp_daemon::verif::set_sink(None);
        let recs = std::mem::take(&mut *shared.log.lock().unwrap());
        let idv = ids.lock().unwrap().clone();
        RunLog {
            recs,
            ids: idv,
            end_us,
            probe,
            daemons_alive,
            tasks_alive_at_end: alive_at_end,
            budget_exceeded: shared.over_budget.load(Ordering::SeqCst),
            roots: roots2,
            trees,
        }
    });
    drop(rt);
    for r in &roots {
        if !r.is_empty() {
            let _ = std::fs::remove_dir_all(r);
        }
    }
    out
}

// ------------------------------------------------------------------------------------ helpers

fn snap_rec(base: &str, rel: &str, out: &mut std::collections::BTreeMap<String, Option<Vec<u8>>>) {
    let dir = if rel.is_empty() { base.to_string() } else { format!("{}/{}", base, rel) };
    if let Ok(rd) = std::fs::read_dir(&dir) {
        for e in rd.flatten() {
            let name = e.file_name().to_string_lossy().to_string();
            let r = if rel.is_empty() { name } else { format!("{}/{}", rel, name) };
            match e.file_type() {
                Ok(t) if t.is_dir() => {
                    out.insert(r.clone(), None);
                    snap_rec(base, &r, out);
                }
                _ => {
                    // (sparse multi-gigabyte sources of the `huge` family are recorded by length only)
                    let path = format!("{}/{}", base, r);
                    let big = std::fs::metadata(&path).map(|m| m.len() > (64 << 20)).unwrap_or(false);
                    out.insert(r.clone(), Some(if big { b"<large file>".to_vec() } else { std::fs::read(&path).unwrap_or_default() }));
                }
            }
        }
    }
}
pub fn snapshot_tree(root: &str) -> std::collections::BTreeMap<String, Option<Vec<u8>>> {
    let mut m = Default::default();
    snap_rec(root, "", &mut m);
    m
}

pub fn is_success(f: &cfdp_core::daemon::FinishedIndication) -> bool {
    f.report.condition == Condition::NoError && f.delivery_code == DeliveryCode::Complete && f.file_status == FileStatusCode::Retained
}

/// One-line rendering of an event, for witnesses and samples.
pub fn render(r: &Rec) -> String {
    let t = format!("{:>9.3}s", r.t_us as f64 / 1e6);
    match &r.ev {
        Ev::Emit { ent, idx, to, kind, pdu, fate, .. } => {
            let extra = match &pdu.payload {
                PDUPayload::FileData(FileDataPDU::Unsegmented(d)) => format!(" off={} len={}", d.offset, d.file_data.len()),
                PDUPayload::Directive(Operations::Nak(n)) => format!(" scope=({},{}) {:?}", n.start_of_scope, n.end_of_scope, n.segment_requests.iter().map(|s| (s.start_offset, s.end_offset)).collect::<Vec<_>>()),
                PDUPayload::Directive(Operations::EoF(e)) => format!(" cond={:?} size={} sum={:#x}", e.condition, e.file_size, e.checksum),
                PDUPayload::Directive(Operations::Finished(f)) => format!(" cond={:?} {:?} {:?} resp={}", f.condition, f.delivery_code, f.file_status, f.filestore_response.len()),
                PDUPayload::Directive(Operations::Ack(a)) => format!(" cond={:?}", a.condition),
                PDUPayload::Directive(Operations::KeepAlive(k)) => format!(" progress={}", k.progress),
                _ => String::new(),
            };
            format!("{} e{} emit#{} ->e{} {}{}{}", t, ent, idx, if *to == usize::MAX { 99 } else { *to }, kind_short(*kind), extra, if fate.is_empty() { String::new() } else { format!(" [{}]", fate) })
        }
        Ev::Arrive { ent, idx, kind, err, origin, .. } => format!("{} e{} recv#{} {}{}{}", t, ent, idx, kind_short(*kind), origin.map(|o| format!(" (emit e{}#{})", o.0, o.1)).unwrap_or_else(|| " (injected)".into()), err.as_ref().map(|e| format!(" ERR {}", e)).unwrap_or_default()),
        Ev::Ind { ent, ind } => {
            let d = match ind {
                Indication::Finished(f) => format!("Finished cond={:?} {:?} {:?} state={:?} resp={:?}", f.report.condition, f.delivery_code, f.file_status, f.report.state, f.filestore_responses.iter().map(|r| r.action_and_status).collect::<Vec<_>>()),
                Indication::Fault(f) => format!("Fault {:?} progress={}", f.condition, f.progress),
                Indication::Abandon(f) => format!("Abandon {:?} progress={}", f.condition, f.progress),
                Indication::Suspended(s) => format!("Suspended {:?}", s.condition),
                Indication::Resumed(r) => format!("Resumed progress={}", r.progress),
                Indication::Report(r) => format!("Report {:?} {:?} {:?}", r.state, r.status, r.condition),
                Indication::FileSegmentRecv(f) => format!("FileSegmentRecv off={} len={}", f.offset, f.length),
                other => format!("{:?}", ind_kind(other)),
            };
            format!("{} e{} IND {} [{}]", t, ent, d, ind_id(ind))
        }
        Ev::Prim { ent, what, id, tr } => format!("{} e{} PRIM {:?} tr{} {:?}", t, ent, what, tr, id.map(|i| i.to_string())),
        Ev::Put { ent, tr, id } => format!("{} e{} PUT tr{} -> {:?}", t, ent, tr, id.map(|i| i.to_string())),
        Ev::ReportAnswer { ent, id, report } => format!("{} e{} REPORT-ANSWER {} {:?}", t, ent, id, report.as_ref().map(|r| (r.state, r.status, r.condition))),
        Ev::Task(te) => format!("{} TASK {:?}", t, match te { TaskEvent::Start(id, k) => format!("start {} {:?}", id, k), TaskEvent::End(id, k) => format!("end {} {:?}", id, k), TaskEvent::Spin(id, k) => format!("SPIN {} {:?}", id, k) }),
        Ev::Dest { tr, content, why } => format!("{} DEST tr{} {} ({})", t, tr, content.as_ref().map(|c| format!("{} bytes h={:x}", c.len(), crate::util::fnv1a(c) & 0xffffff)).unwrap_or_else(|| "absent".into()), why),
        Ev::Marker { tr, content } => format!("{} MARKER tr{} {:?}", t, tr, content.as_ref().map(|c| c.len())),
        Ev::DaemonExit { ent } => format!("{} e{} DAEMON EXIT", t, ent),
        Ev::Note(s) => format!("{} NOTE {}", t, s),
    }
}

pub fn render_log(log: &RunLog, max: usize) -> Vec<String> {
    let mut v: Vec<String> = log.recs.iter().filter(|r| !matches!(&r.ev, Ev::Ind { ind: Indication::FileSegmentRecv(_), .. } | Ev::Ind { ind: Indication::Report(_), .. })).map(render).collect();
    if v.len() > max {
        let tail = v.split_off(v.len() - max / 2);
        v.truncate(max / 2);
        v.push("...".into());
        v.extend(tail);
    }
    v
}

/// Order-sensitive signature of the run's event kinds (no payloads, no absolute times).
pub fn interleaving_sig(log: &RunLog) -> u64 {
    let mut h = 0xcbf29ce484222325u64;
    for r in &log.recs {
        let x: u64 = match &r.ev {
            Ev::Emit { ent, kind, fate, .. } => 1 + (*ent as u64) * 31 + (*kind as u64) * 131 + crate::util::fnv1a(fate.as_bytes()) % 1000,
            Ev::Arrive { ent, kind, .. } => 2 + (*ent as u64) * 37 + (*kind as u64) * 137,
            Ev::Ind { ent, ind } => {
                let k = ind_kind(ind);
                if k == IndKind::Report || k == IndKind::FileSegmentRecv {
                    continue;
                }
                3 + (*ent as u64) * 41 + (k as u64) * 139
            }
            Ev::Prim { ent, what, .. } => 4 + (*ent as u64) * 43 + (*what as u64) * 149,
            Ev::Task(TaskEvent::End(_, k)) => 5 + (*k as u64) * 151,
            _ => continue,
        };
        h = crate::util::fnv_mix(h, x);
    }
    h
}
