//! C01 (delivered file is byte-identical), C02 (acknowledged mode recovers from bounded faults),
//! C03 (every transaction ends in bounded time). Workload families and oracles.
use crate::e1::*;
use crate::report::{Meta, Report};
use crate::sim::*;
use crate::simgen::*;
use crate::util::{Rng, J};
use cfdp_core::pdu::*;
use cfdp_daemon::verif::TaskKind;

fn ack() -> TransmissionMode {
    TransmissionMode::Acknowledged
}
fn unack() -> TransmissionMode {
    TransmissionMode::Unacknowledged
}

// ===================================================================================== C01

/// (mode, closure) variants
const MODES: [(bool, bool); 3] = [(true, false), (false, false), (false, true)];

fn c01_loss1_space() -> Vec<(usize, usize, usize, u64, usize, usize)> {
    // (mode idx, nak idx, size idx, content class, lost emission index (0 = metadata .. last = EOF), seg)
    let mut v = vec![];
    let seg = 32usize;
    let szs = [4 * seg, 4 * seg + 5, seg, 2 * seg - 1];
    for m in 0..3 {
        for n in 0..4 {
            if m != 0 && n != 0 {
                continue;
            }
            for (si, s) in szs.iter().enumerate() {
                let npdu = first_pass_len(*s, seg);
                for class in [3u64, 1, 2, 0] {
                    for lost in 0..npdu {
                        v.push((m, n, si, class, lost, seg));
                    }
                }
            }
        }
    }
    v
}

pub fn c01_case(fam: &str, idx: usize, seed: u64) -> Option<Case> {
    let case = format!("C01:{}:{}:{}", fam, idx, seed);
    match fam {
        "loss1" => {
            let sp = c01_loss1_space();
            let (m, n, si, class, lost, seg) = *sp.get(idx)?;
            let szs = [4 * seg, 4 * seg + 5, seg, 2 * seg - 1];
            let mut k = Knobs::base();
            k.mode = if MODES[m].0 { ack() } else { unack() };
            k.closure = MODES[m].1;
            k.nak = nak_procs()[n];
            k.seg = seg as u16;
            let mut rng = Rng::derive(seed, 101, idx as u64);
            let c = content(&mut rng, szs[si], class, seg, 0xC01 + idx as u64);
            let mut sc = two_party(&case, seed ^ idx as u64, &k, c);
            sc.rules.push(Rule { from: 0, to: 1, m: Matcher::Nth(lost), a: Action::Drop });
            if idx % 3 == 0 {
                sc.transfers[0].stale_dest = Some(b"stale destination content that must never be reported".to_vec());
            }
            let desc = format!("{} size={} content={} lost emission #{} of e0->e1", k.describe(), szs[si], content_name(class), lost);
            Some(Case::from(sc, &k, desc, false))
        }
        "rand" => {
            let mut rng = Rng::derive(seed, 102, idx as u64);
            let k = rand_knobs(&mut rng, false);
            let seg = k.seg as usize;
            let size = rand_size(&mut rng, seg);
            let class = *rng.pick(&[0u64, 1, 2, 3, 3, 3, 2, 4]);
            let tag = rng.next_u64();
            let c = content(&mut rng, size, class, seg, tag);
            let mut sc = two_party(&case, rng.next_u64(), &k, c);
            let n0 = first_pass_len(size, seg) + 4;
            let nf = rng.usize(7);
            for _ in 0..nf {
                let mut r = rand_fault(&mut rng, n0, 6, true);
                if k.crc && rng.chance(1, 4) {
                    r.a = Action::Corrupt(rng.usize(seg + 8), 1 << rng.below(8));
                }
                sc.rules.push(r);
            }
            if rng.chance(1, 4) {
                let sl = 1 + rng.usize(3 * seg);
                sc.transfers[0].stale_dest = Some(rng.bytes(sl));
            }
            sc.paced = rng.chance(3, 4);
            sc.tx_ms = if rng.bool() { 1 } else { 0 };
            sc.latency_ms = *rng.pick(&[0, 1, 5, 40]);
            let desc = format!("{} size={} content={} faults=[{}] paced={} tx={}ms lat={}ms stale={}", k.describe(), size, content_name(class), rules_desc(&sc.rules), sc.paced, sc.tx_ms, sc.latency_ms, sc.transfers[0].stale_dest.is_some());
            Some(Case::from(sc, &k, desc, false))
        }
        _ => None,
    }
}

/// C01 oracle: every success indication (either user) is checked against the source snapshot at
/// the quiescent instant it was reported.
pub fn judge_c01(info: &Info, log: &RunLog, rep: &mut Report) {
    let d = Dig::new(log);
    let mut checked = 0;
    for (tr, t) in info.transfers.iter().enumerate() {
        let id = match d.id(tr) {
            Some(i) => i,
            None => continue,
        };
        if t.src_name.is_empty() {
            continue;
        }
        let dests = d.dests(tr);
        for ent in [t.dst, t.src] {
            if info.scripted[ent] {
                continue;
            }
            for (li, _t, f) in d.finished(ent, id) {
                if !is_success(f) {
                    continue;
                }
                // the forced observation that follows this indication
                let obs = dests.iter().find(|x| x.0 > li && x.3 == "at-finished-indication");
                let obs = match obs {
                    Some(o) => o,
                    None => {
                        rep.inconclusive("no file observation after a success indication", &info.case);
                        continue;
                    }
                };
                checked += 1;
                let who = if ent == t.dst { "receiver" } else { "sender" };
                let mode = if t.mode == ack() { "ack" } else { "unack" };
                rep.count(&format!("success_indications_checked:{}:{}", who, mode));
                let ok = obs.2.as_deref() == Some(t.content.as_slice());
                if !ok {
                    let what = match obs.2 {
                        None => "absent".to_string(),
                        Some(c) if Some(c) == t.stale_dest.as_ref() => "stale".to_string(),
                        Some(c) if c.len() != t.content.len() => "wrong-length".to_string(),
                        Some(_) => "wrong-bytes".to_string(),
                    };
                    // which kinds of PDU never reached the receiver intact
                    let arr = d.arrivals(t.dst, id);
                    let got_md = arr.iter().any(|a| a.2 == Kind::Metadata);
                    let mut covered = vec![false; t.content.len()];
                    for a in &arr {
                        if let PDUPayload::FileData(FileDataPDU::Unsegmented(u)) = &a.3.payload {
                            for i in 0..u.file_data.len() {
                                if let Some(c) = covered.get_mut(u.offset as usize + i) {
                                    *c = true;
                                }
                            }
                        }
                    }
                    let missing = covered.iter().filter(|c| !**c).count();
                    let key = format!("{} success but destination {}; mode={}{} metadata_delivered={} data_missing={}", who, what, mode, if info.knobs[0].closure { "+closure" } else { "" }, got_md, missing > 0);
                    rep.violate("success-file-differs", key, &info.case, witness(log, info, &format!("{} reported Finished(NoError, Complete, Retained) but destination is {} ({} source bytes never delivered)", who, what, missing)));
                }
            }
        }
    }
    count_observed(rep, log);
    if checked > 0 && d.faults_applied() > 0 {
        rep.nontrivial(case_sig(info, log));
    }
    if checked > 0 {
        rep.sample(sample_json(log, info, 40));
    }
}

pub fn run_c01(tier: &str, seed: u64, replay: Option<&str>) -> (Meta, Report) {
    let meta = Meta {
        property: "C01",
        level: "exploration",
        rule: "cases = every single lost PDU of the first pass x {checksum-neutral, zeros, zero-runs, random} content x modes x NAK procedures (family loss1, complete) + seeded random scenarios (family rand: knobs, size, content class, 0-6 faults incl. CRC-protected corruption, stale destination, paced/burst, latency). The same oracle also runs over the executions of seven families of other properties' workloads (C03 late / primseq, C02 adaptive, C04 rand, C10 rand, C18 rand, C19 rand). Oracle evaluated at every success indication. distinct_nontrivial = distinct (config, size, event-order) signatures among runs in which a fault fired AND a success indication was checked.".into(),
        exhaustive: false,
        assumptions: vec![
            "source file is not modified after Put".into(),
            "success = Finished(NoError, Complete, Retained); the destination is read at the quiescent instant the indication reaches the user".into(),
        ],
        require: vec![("success_indications_checked:receiver:ack".into(), 50), ("success_indications_checked:receiver:unack".into(), 20), ("success_indications_checked:sender:ack".into(), 50)],
        extra: vec![],
    };
    if let Some(r) = replay {
        let case = any_case(r).expect("case");
        return (meta, run_single(case, judge_c01));
    }
    let n1 = c01_loss1_space().len();
    let nr = if tier == "thorough" { 2_000_000 } else { 6_000 };
    let mut rep = run_cases(n1, "c01-loss1", move |i| c01_case("loss1", i, seed), judge_c01);
    rep.merge(run_cases(nr, "c01-rand", move |i| c01_case("rand", i, seed), judge_c01));
    rep.add("cases:loss1", n1 as u64);
    rep.add("cases:rand", nr as u64);
    // the same oracle over the executions of other properties' workloads (cancels, suspensions, primitive
    // sequences, late copies in every end state, the finality window, unacknowledged-mode losses)
    let nx = if tier == "thorough" { 60_000 } else { 700 };
    rep.merge(run_cases(nx, "c01-x-c03late", move |i| c03_case("late", i, seed), judge_c01));
    rep.merge(run_cases(nx, "c01-x-c03primseq", move |i| c03_case("primseq", i, seed), judge_c01));
    rep.merge(run_cases(nx, "c01-x-c02adaptive", move |i| c02_case("adaptive", i, seed), judge_c01));
    rep.merge(run_cases(nx, "c01-x-c04rand", move |i| crate::p_final::c04_case("rand", i, seed), judge_c01));
    rep.merge(run_cases(nx, "c01-x-c10rand", move |i| crate::p_final::c10_case("rand", i, seed), judge_c01));
    rep.merge(run_cases(nx, "c01-x-c18rand", move |i| crate::p_proto::c18_case("rand", i, seed), judge_c01));
    rep.merge(run_cases(nx, "c01-x-c19rand", move |i| crate::p_proto::c19_case("rand", i, seed), judge_c01));
    rep.add("cases:cross(c03-late,c03-primseq,c02-adaptive,c04-rand,c10-rand,c18-rand,c19-rand)", 7 * nx as u64);
    (meta, rep)
}

// ===================================================================================== C02

const C02_SIZES: [usize; 6] = [0, 1, 31, 32, 33, 96];
fn c02_kinds() -> Vec<Action> {
    vec![Action::Drop, Action::Dup(1, 0), Action::Dup(2, 3), Action::Delay(3), Action::Delay(1200)]
}
/// fault sites for a file of `size` with segment 32: (from, idx)
fn c02_sites(size: usize) -> Vec<(Ent, usize)> {
    let n0 = first_pass_len(size, 32) + 5;
    let n1 = 7;
    let mut v = vec![];
    for i in 0..n0 {
        v.push((0, i));
    }
    for i in 0..n1 {
        v.push((1, i));
    }
    v
}
fn c02_cfgs() -> Vec<(usize, usize, bool, bool)> {
    // (size idx, nak idx, crc, closure)
    let mut v = vec![];
    for s in 0..C02_SIZES.len() {
        for n in 0..4 {
            for crc in [false, true] {
                v.push((s, n, crc, (s + n) % 2 == 1));
            }
        }
    }
    v
}
fn c02_sys1_space() -> Vec<(usize, usize, usize)> {
    // (cfg idx, site idx, kind idx)
    let cfgs = c02_cfgs();
    let mut v = vec![];
    for (ci, c) in cfgs.iter().enumerate() {
        let sites = c02_sites(C02_SIZES[c.0]);
        for si in 0..sites.len() {
            for ki in 0..c02_kinds().len() {
                v.push((ci, si, ki));
            }
        }
    }
    v
}
/// pairs: complete for every cfg with crc=false (quick uses a seeded 1/8 sample of it)
fn c02_sys2_space() -> Vec<(usize, usize, usize, usize, usize)> {
    let cfgs = c02_cfgs();
    let nk = c02_kinds().len();
    let mut v = vec![];
    for (ci, c) in cfgs.iter().enumerate() {
        if c.2 {
            continue;
        }
        let ns = c02_sites(C02_SIZES[c.0]).len();
        for a in 0..ns * nk {
            for b in (a + 1)..ns * nk {
                if a / nk == b / nk {
                    continue; // same site
                }
                v.push((ci, a / nk, a % nk, b / nk, b % nk));
            }
        }
    }
    v
}

fn c02_base(case: &str, seed: u64, cfg: (usize, usize, bool, bool), limit: u32) -> (Scenario, Knobs, usize) {
    let mut k = Knobs::base();
    k.seg = 32;
    k.nak = nak_procs()[cfg.1];
    k.crc = cfg.2;
    k.closure = cfg.3;
    k.limit = limit;
    let size = C02_SIZES[cfg.0];
    let mut rng = Rng::derive(seed, 201, (cfg.0 * 16 + cfg.1) as u64);
    let c = content(&mut rng, size, (cfg.0 + cfg.1) as u64 % 4, 32, 0xC02);
    let sc = two_party(case, seed ^ (cfg.0 as u64 * 131 + cfg.1 as u64), &k, c);
    (sc, k, size)
}

pub fn c02_case(fam: &str, idx: usize, seed: u64) -> Option<Case> {
    let case = format!("C02:{}:{}:{}", fam, idx, seed);
    let kinds = c02_kinds();
    match fam {
        "sys1" => {
            let (ci, si, ki) = *c02_sys1_space().get(idx)?;
            let cfg = c02_cfgs()[ci];
            let (mut sc, k, size) = c02_base(&case, seed, cfg, 3);
            let site = c02_sites(size)[si];
            sc.rules.push(Rule { from: site.0, to: 1 - site.0, m: Matcher::Nth(site.1), a: kinds[ki].clone() });
            let desc = format!("{} size={} single fault: {}", k.describe(), size, rules_desc(&sc.rules));
            Some(Case::from(sc, &k, desc, true))
        }
        "sys2" => {
            let sp = c02_sys2_space();
            let (ci, s1, k1, s2, k2) = *sp.get(idx)?;
            let cfg = c02_cfgs()[ci];
            let (mut sc, k, size) = c02_base(&case, seed, cfg, 3);
            let sites = c02_sites(size);
            for (s, kk) in [(s1, k1), (s2, k2)] {
                sc.rules.push(Rule { from: sites[s].0, to: 1 - sites[s].0, m: Matcher::Nth(sites[s].1), a: kinds[kk].clone() });
            }
            let desc = format!("{} size={} two faults: {}", k.describe(), size, rules_desc(&sc.rules));
            Some(Case::from(sc, &k, desc, true))
        }
        "rand" => {
            let mut rng = Rng::derive(seed, 203, idx as u64);
            let mut k = rand_knobs(&mut rng, true);
            k.limit = *rng.pick(&[3u32, 4, 5]);
            let seg = k.seg as usize;
            let size = rand_size(&mut rng, seg);
            let class = rng.below(5);
            let tag = rng.next_u64();
            let c = content(&mut rng, size, class, seg, tag);
            let mut sc = two_party(&case, rng.next_u64(), &k, c);
            let n0 = first_pass_len(size, seg) + 6;
            let drops = rng.usize(k.limit as usize); // <= L-1
            for _ in 0..drops {
                let mut r = rand_fault(&mut rng, n0, 8, true);
                r.a = if k.crc && rng.chance(1, 3) { Action::Corrupt(rng.usize(seg + 8), 1 << rng.below(8)) } else { Action::Drop };
                sc.rules.push(r);
            }
            for _ in 0..rng.usize(4) {
                sc.rules.push(rand_fault(&mut rng, n0, 8, false));
            }
            sc.paced = rng.chance(2, 3);
            sc.tx_ms = if rng.bool() { 1 } else { 0 };
            sc.latency_ms = *rng.pick(&[0, 1, 5, 40]);
            let desc = format!("{} size={} content={} faults=[{}] paced={} tx={}ms lat={}ms", k.describe(), size, content_name(class), rules_desc(&sc.rules), sc.paced, sc.tx_ms, sc.latency_ms);
            Some(Case::from(sc, &k, desc, true))
        }
        "adaptive" => {
            // adaptive random loss that keeps every retransmission counter below its limit (sim::Dropper):
            // many losses overall, long recoveries with progress in between
            let mut rng = Rng::derive(seed, 204, idx as u64);
            let mut k = rand_knobs(&mut rng, true);
            k.limit = *rng.pick(&[2u32, 3, 4]);
            k.seg = *rng.pick(&[16u16, 32, 64]);
            let seg = k.seg as usize;
            let size = *rng.pick(&[0usize, 1, seg, 3 * seg, 6 * seg + 5, 12 * seg, 20 * seg - 1]);
            let class = rng.below(5);
            let tag = rng.next_u64();
            let c = content(&mut rng, size, class, seg, tag);
            let mut sc = two_party(&case, rng.next_u64(), &k, c);
            let p = *rng.pick(&[10u64, 25, 40, 60]);
            sc.dropper = Some(Dropper { seed: rng.next_u64(), p_num: p, p_den: 100, limit: k.limit });
            for _ in 0..rng.usize(3) {
                sc.rules.push(rand_fault(&mut rng, first_pass_len(size, seg) + 10, 10, false));
            }
            sc.paced = rng.chance(2, 3);
            sc.latency_ms = *rng.pick(&[0, 1, 5, 40]);
            // recoveries are long: give the run the time the retransmission timers need
            sc.observe_ms = 3 * bound_ms(&k.config(), 2000) + (size / seg + 4) as u64 * (k.limit as u64) * (k.tn as u64 + k.ta as u64) * 1000;
            let desc = format!("{} size={} content={} adaptive loss p={}% within per-counter budgets of L-1={} plus [{}] paced={} lat={}ms", k.describe(), size, content_name(class), p, k.limit - 1, rules_desc(&sc.rules), sc.paced, sc.latency_ms);
            Some(Case::from(sc, &k, desc, true))
        }
        "trip" => {
            // all triples of drops for L=4 on the two smallest files, deferred NAK
            let nsites = |size: usize| c02_sites(size).len();
            let mut i = idx;
            for (szi, size) in [0usize, 1].iter().enumerate() {
                let n = nsites(*size);
                let cnt = n * (n - 1) * (n - 2) / 6;
                if i < cnt * 2 {
                    let nak = (i / cnt) * 2; // def0 / imm0
                    let mut j = i % cnt;
                    // unrank the triple
                    let mut tri = (0, 1, 2);
                    'o: for a in 0..n {
                        for b in (a + 1)..n {
                            for c in (b + 1)..n {
                                if j == 0 {
                                    tri = (a, b, c);
                                    break 'o;
                                }
                                j -= 1;
                            }
                        }
                    }
                    let (mut sc, k, size) = c02_base(&case, seed, (szi, nak, false, false), 4);
                    let sites = c02_sites(size);
                    for s in [tri.0, tri.1, tri.2] {
                        sc.rules.push(Rule { from: sites[s].0, to: 1 - sites[s].0, m: Matcher::Nth(sites[s].1), a: Action::Drop });
                    }
                    let desc = format!("{} size={} three drops (L=4): {}", k.describe(), size, rules_desc(&sc.rules));
                    return Some(Case::from(sc, &k, desc, true));
                }
                i -= cnt * 2;
            }
            None
        }
        _ => None,
    }
}
fn c02_trip_len() -> usize {
    let mut t = 0;
    for size in [0usize, 1] {
        let n = c02_sites(size).len();
        t += 2 * n * (n - 1) * (n - 2) / 6;
    }
    t
}

/// C02 oracle. Only called on cases whose faults are inside the hypothesis.
pub fn judge_c02(info: &Info, log: &RunLog, rep: &mut Report) {
    let d = Dig::new(log);
    let t = &info.transfers[0];
    count_observed(rep, log);
    let id = match d.id(0) {
        Some(i) => i,
        None => {
            rep.inconclusive("Put was not answered", &info.case);
            return;
        }
    };
    if log.budget_exceeded {
        rep.violate("event-budget", history_shape(&d, info, 0, 0), &info.case, witness(log, info, "event budget exceeded (retransmission loop?)"));
        return;
    }
    let b = bound_us(info, 0);
    let deadline = d.time_of_last_fault() + b;
    let rs = d.first_success(t.dst, id);
    let ss = d.first_success(t.src, id);
    let es = d.ended(id, TaskKind::Send);
    let er = d.ended(id, TaskKind::Recv);
    let fin = d.dest_final(0).cloned().flatten();
    let mut missing = vec![];
    if rs.map(|x| x.1 > deadline).unwrap_or(true) {
        missing.push("receiver-success");
    }
    if ss.map(|x| x.1 > deadline).unwrap_or(true) {
        missing.push("sender-success");
    }
    if fin.as_deref() != Some(t.content.as_slice()) {
        missing.push("destination-equals-source");
    }
    if es.map(|x| x > deadline).unwrap_or(true) {
        missing.push("send-task-ended");
    }
    if er.map(|x| x > deadline).unwrap_or(true) {
        missing.push("recv-task-ended");
    }
    rep.count("c02_runs_judged");
    let nf = d.faults_applied();
    if nf > 0 {
        rep.count("c02_runs_with_fault_fired");
        rep.nontrivial(case_sig(info, log));
    }
    if !missing.is_empty() {
        // key: which kinds of PDU were hit, what is missing, what faults the users saw
        let mut hit: Vec<String> = vec![];
        for r in &log.recs {
            if let Ev::Emit { kind, fate, pdu, .. } = &r.ev {
                if !fate.is_empty() && fate != "scripted" {
                    let what = match (&pdu.payload, kind) {
                        (PDUPayload::FileData(FileDataPDU::Unsegmented(u)), _) => {
                            if u.offset == 0 { "FD#first".to_string() } else if u.offset as usize + u.file_data.len() >= t.content.len() { "FD#last".to_string() } else { "FD#mid".to_string() }
                        }
                        (_, k) => kind_short(*k).to_string(),
                    };
                    let f0 = fate.split(' ').next().unwrap_or("").trim_end_matches(|c: char| c.is_ascii_digit()).to_string();
                    hit.push(format!("{}:{}", what, f0));
                }
            }
        }
        hit.sort();
        hit.dedup();
        let mut faults: Vec<String> = vec![];
        for e in [t.src, t.dst] {
            for f in d.faults(e, id) {
                faults.push(format!("e{}:{:?}", e, f.2.condition));
            }
        }
        faults.dedup();
        let key = format!("cfg={} size-class={} hit=[{}] missing=[{}] faults=[{}]", info.knobs[0].shape(), size_class(t.content.len(), info.knobs[0].seg as usize), hit.join(","), missing.join(","), faults.join(","));
        rep.violate("bounded-faults-not-recovered", key, &info.case, witness(log, info, &format!("faults within the hypothesis, yet missing by t_last_fault + B: {:?}", missing)));
    } else if nf > 0 {
        rep.sample(sample_json(log, info, 30));
    }
}

pub fn size_class(size: usize, seg: usize) -> &'static str {
    if size == 0 {
        "empty"
    } else if size <= seg {
        "single-segment"
    } else {
        "multi-segment"
    }
}

pub fn run_c02(tier: &str, seed: u64, replay: Option<&str>) -> (Meta, Report) {
    let thorough = tier == "thorough";
    let meta = Meta {
        property: "C02",
        level: "fault_enumeration",
        rule: "acknowledged mode, faults inside the hypothesis (total drops <= L-1, delays < min timer/2, Ti >= Ta+Tn). sys1 = EVERY single fault {drop, dup, dup x2 spaced, delay past next PDUs, delay 1.2 s} at every emission index of both directions (first pass + 5 / first 7) x sizes {0,1,seg-1,seg,seg+1,3seg} x 4 NAK procedures x CRC on/off (complete); sys2 = every pair of such faults at distinct sites, CRC off (thorough: complete; quick: seeded 1/6 sample); trip = every triple of drops, L=4, sizes {0,1} (thorough); rand = seeded random plans with up to L-1 drops/corruptions plus dups/delays, L in {3,4,5}; adaptive = every PDU dropped with probability 10-60% subject to per-counter budgets (at most L-1 drops among EOF/ACK(EOF), among Finished/ACK(Finished), and among NAK/retransmissions since file data last made progress; first transmissions unlimited), L in {2,3,4}, files up to 20 segments: long recoveries with progress in between. distinct_nontrivial = distinct (config, size, event-order) signatures among runs in which at least one fault fired.".into(),
        exhaustive: thorough,
        assumptions: vec!["timeouts Ti=10 Ta=3 Tn=4 s (Ti >= Ta+Tn)".into(), "deadline = time of last applied fault + B, B = 2L(Ti+Ta+Tn)+d+4D+10 s".into()],
        require: vec![("c02_runs_with_fault_fired".into(), 1000)],
        extra: vec![],
    };
    if let Some(r) = replay {
        let p: Vec<&str> = r.split(':').collect();
        let case = c02_case(p[1], p[2].parse().unwrap(), p[3].parse().unwrap()).expect("case");
        return (meta, run_single(case, judge_c02));
    }
    let n1 = c02_sys1_space().len();
    let n2 = c02_sys2_space().len();
    let mut rep = run_cases(n1, "c02-sys1", move |i| c02_case("sys1", i, seed), judge_c02);
    rep.add("cases:sys1", n1 as u64);
    if thorough {
        rep.merge(run_cases(n2, "c02-sys2", move |i| c02_case("sys2", i, seed), judge_c02));
        rep.add("cases:sys2", n2 as u64);
        let n3 = c02_trip_len();
        rep.merge(run_cases(n3, "c02-trip", move |i| c02_case("trip", i, seed), judge_c02));
        rep.add("cases:trip", n3 as u64);
    } else {
        let stride = 6usize;
        let off = (seed % stride as u64) as usize;
        let m = (n2 - off + stride - 1) / stride;
        rep.merge(run_cases(m, "c02-sys2", move |i| c02_case("sys2", off + i * stride, seed), judge_c02));
        rep.add("cases:sys2", m as u64);
    }
    let nr = if thorough { 800_000 } else { 8_000 };
    rep.merge(run_cases(nr, "c02-rand", move |i| c02_case("rand", i, seed), judge_c02));
    rep.add("cases:rand", nr as u64);
    let na = if thorough { 800_000 } else { 5_000 };
    rep.merge(run_cases(na, "c02-adaptive", move |i| c02_case("adaptive", i, seed), judge_c02));
    rep.add("cases:adaptive", na as u64);
    (meta, rep)
}

// ===================================================================================== C03

/// timer grid (ti, ta, tn, limit)
const C03_TIMERS: [(i64, i64, i64, u32); 4] = [(10, 3, 4, 3), (2, 1, 1, 2), (5, 2, 3, 1), (30, 5, 7, 2)];

fn c03_blackout_space() -> Vec<(usize, usize, usize, usize, usize, usize)> {
    // (mode idx, nak idx, timers idx, size idx, direction 0/1/2=both, cut index)
    let mut v = vec![];
    let sizes = [0usize, 40, 100];
    for m in 0..3 {
        for n in 0..4 {
            if m != 0 && n != 0 {
                continue;
            }
            for ti in 0..C03_TIMERS.len() {
                for (si, s) in sizes.iter().enumerate() {
                    let n0 = first_pass_len(*s, 32) + 4;
                    for dir in 0..3 {
                        let ncut = if dir == 1 { 6 } else { n0 };
                        for cut in 0..ncut {
                            v.push((m, n, ti, si, dir, cut));
                        }
                    }
                }
            }
        }
    }
    v
}

fn c03_knobs(m: usize, n: usize, ti: usize) -> Knobs {
    let mut k = Knobs::base();
    k.mode = if MODES[m].0 { ack() } else { unack() };
    k.closure = MODES[m].1;
    k.nak = nak_procs()[n];
    k.seg = 32;
    let t = C03_TIMERS[ti];
    k.ti = t.0;
    k.ta = t.1;
    k.tn = t.2;
    k.limit = t.3;
    k
}

pub fn c03_case(fam: &str, idx: usize, seed: u64) -> Option<Case> {
    let case = format!("C03:{}:{}:{}", fam, idx, seed);
    let sizes = [0usize, 40, 100];
    match fam {
        "blackout" => {
            let (m, n, ti, si, dir, cut) = *c03_blackout_space().get(idx)?;
            let k = c03_knobs(m, n, ti);
            let mut rng = Rng::derive(seed, 301, idx as u64);
            let c = content(&mut rng, sizes[si], idx as u64 % 5, 32, 0xC03);
            let mut sc = two_party(&case, seed ^ idx as u64, &k, c);
            if dir == 0 || dir == 2 {
                sc.rules.push(Rule { from: 0, to: 1, m: Matcher::FromIdx(cut), a: Action::Drop });
            }
            if dir == 1 {
                sc.rules.push(Rule { from: 1, to: 0, m: Matcher::FromIdx(cut), a: Action::Drop });
            }
            if dir == 2 {
                // the reverse direction goes dark at the same moment: after the sender's emission #cut
                sc.rules.push(Rule { from: 1, to: 0, m: Matcher::FromIdx(cut.saturating_sub(first_pass_len(sizes[si], 32))), a: Action::Drop });
            }
            sc.probe = true;
            sc.final_reports = true;
            let desc = format!("{} size={} blackout dir={} from emission #{}", k.describe(), sizes[si], ["e0->e1", "e1->e0", "both"][dir], cut);
            Some(Case::from(sc, &k, desc, false))
        }
        "cancel" => {
            // user cancel at either side after emission/arrival #k, then the peer falls silent at #k+j
            let mut rng = Rng::derive(seed, 302, idx as u64);
            let m = rng.usize(3);
            let k = c03_knobs(m, rng.usize(4) * (m == 0) as usize, rng.usize(C03_TIMERS.len()));
            let size = sizes[rng.usize(3)];
            let cl = rng.below(5);
            let c = content(&mut rng, size, cl, 32, 0xC03);
            let mut sc = two_party(&case, rng.next_u64(), &k, c);
            let n0 = first_pass_len(size, 32) + 3;
            let who = rng.usize(2);
            let at = rng.usize(n0);
            let trig = if rng.bool() { Trigger::AfterEmit(0, at) } else { Trigger::AfterArrive(1, at.min(n0 - 3)) };
            sc.scripts.push(Script { trig, delay_ms: rng.below(3), act: Act::Prim(who, PrimKind::Cancel, 0) });
            let dir = rng.usize(3);
            let cut0 = at + rng.usize(4);
            let cut1 = rng.usize(5);
            if dir == 0 || dir == 2 {
                sc.rules.push(Rule { from: 0, to: 1, m: Matcher::FromIdx(cut0), a: Action::Drop });
            }
            if dir == 1 || dir == 2 {
                sc.rules.push(Rule { from: 1, to: 0, m: Matcher::FromIdx(cut1), a: Action::Drop });
            }
            sc.probe = true;
            sc.final_reports = true;
            let desc = format!("{} size={} cancel at e{} ({:?}) then blackout [{}]", k.describe(), size, who, sc.scripts[0].trig, rules_desc(&sc.rules));
            Some(Case::from(sc, &k, desc, false))
        }
        "primseq" => {
            // sequences of user primitives (cancel, suspend, resume, prompts) at either entity at random points of the
            // exchange, with the link going dark at a random point: whatever the order, every transaction that is
            // not left suspended must end
            let mut rng = Rng::derive(seed, 305, idx as u64);
            let mut k = rand_knobs(&mut rng, false);
            let t = C03_TIMERS[rng.usize(C03_TIMERS.len())];
            k.ti = t.0;
            k.ta = t.1;
            k.tn = t.2;
            k.limit = t.3;
            k.seg = 32;
            let size = *rng.pick(&[0usize, 40, 100, 200]);
            let cl = rng.below(5);
            let c = content(&mut rng, size, cl, 32, 1);
            let mut sc = two_party(&case, rng.next_u64(), &k, c);
            let n0 = first_pass_len(size, 32) + 2;
            let who = rng.usize(2);
            let seqs: [&[PrimKind]; 8] = [
                &[PrimKind::Cancel, PrimKind::Suspend, PrimKind::Resume],
                &[PrimKind::Suspend, PrimKind::Cancel],
                &[PrimKind::Suspend, PrimKind::Resume, PrimKind::Cancel],
                &[PrimKind::Suspend, PrimKind::Resume, PrimKind::Suspend, PrimKind::Resume],
                &[PrimKind::Cancel, PrimKind::Cancel],
                &[PrimKind::PromptNak, PrimKind::Suspend, PrimKind::Resume],
                &[PrimKind::Suspend, PrimKind::PromptKeepAlive, PrimKind::Resume, PrimKind::Cancel],
                &[PrimKind::Resume, PrimKind::Cancel, PrimKind::Resume],
            ];
            let seq = seqs[rng.usize(seqs.len())];
            let trig = match rng.below(3) {
                0 => Trigger::AfterEmit(0, rng.usize(n0)),
                1 => Trigger::AfterArrive(1, rng.usize(n0.saturating_sub(1).max(1))),
                _ => Trigger::AfterArrive(0, rng.usize(3)),
            };
            let mut d = 0u64;
            for p in seq {
                d += *rng.pick(&[0u64, 1, 5, 300, 1500, 4000]);
                let e = if matches!(p, PrimKind::PromptNak | PrimKind::PromptKeepAlive) { 0 } else { who };
                sc.scripts.push(Script { trig: trig.clone(), delay_ms: d, act: Act::Prim(e, *p, 0) });
            }
            match rng.below(4) {
                0 => sc.rules.push(Rule { from: 1, to: 0, m: Matcher::FromIdx(rng.usize(4)), a: Action::Drop }),
                1 => sc.rules.push(Rule { from: 0, to: 1, m: Matcher::FromIdx(rng.usize(n0 + 2)), a: Action::Drop }),
                2 => {
                    sc.rules.push(Rule { from: 1, to: 0, m: Matcher::FromIdx(rng.usize(4)), a: Action::Drop });
                    sc.rules.push(Rule { from: 0, to: 1, m: Matcher::FromIdx(rng.usize(n0 + 2)), a: Action::Drop });
                }
                _ => {}
            }
            sc.probe = true;
            let desc = format!("{} size={} primitives {:?} at e{} from {:?} faults=[{}]", k.describe(), size, seq, who, trig, rules_desc(&sc.rules));
            Some(Case::from(sc, &k, desc, false))
        }
        "stall" => {
            // back-pressure instead of loss: a transport stops taking PDUs for good after k of them (its `request`
            // never returns); PDUs queue up behind it, and still every transaction has to end by its timers
            let mut rng = Rng::derive(seed, 307, idx as u64);
            let mut k = rand_knobs(&mut rng, false);
            let t = C03_TIMERS[rng.usize(C03_TIMERS.len())];
            k.ti = t.0;
            k.ta = t.1;
            k.tn = t.2;
            k.limit = t.3;
            k.seg = 32;
            let size = *rng.pick(&[0usize, 40, 100, 200, 600]);
            let cl = rng.below(5);
            let c = content(&mut rng, size, cl, 32, 1);
            let mut sc = two_party(&case, rng.next_u64(), &k, c);
            // the receiver's transport at any point; the sender's only once its EOF has gone out (a sender blocked
            // in its data phase has no timer running: see DESIGN.md, observations)
            let n0 = first_pass_len(size, 32);
            if rng.chance(2, 3) {
                sc.stall_after.push((1, rng.usize(4)));
            }
            if sc.stall_after.is_empty() || rng.chance(1, 3) {
                sc.stall_after.push((0, n0 + rng.usize(3)));
            }
            sc.paced = rng.bool();
            let desc = format!("{} size={} transports stall after {:?} PDUs", k.describe(), size, sc.stall_after);
            Some(Case::from(sc, &k, desc, false))
        }
        "late" => {
            // PDUs that arrive late in every state a transaction can be in: something (a dropped kind, a cut, a
            // user cancel, or nothing) drives the exchange into a limit fault / a cancel / a normal end, and copies of
            // earlier PDUs of any kind reach an entity at chosen delays after its Fault / Finished / Abandon
            // indication; plus long-spaced duplicates of every PDU of one kind. Terminating handlers
            // (cancel / abandon) per condition; a lenient handler exempts only when its condition was declared.
            let mut rng = Rng::derive(seed, 306, idx as u64);
            let mut k = rand_knobs(&mut rng, false);
            let t = C03_TIMERS[rng.usize(C03_TIMERS.len())];
            k.ti = t.0;
            k.ta = t.1;
            k.tn = t.2;
            k.limit = t.3;
            k.seg = 32;
            for c in [Condition::PositiveLimitReached, Condition::NakLimitReached, Condition::InactivityDetected] {
                match rng.below(8) {
                    0 | 1 => k.handlers.push((c, FaultHandlerAction::Abandon)),
                    2 => k.handlers.push((c, FaultHandlerAction::Cancel)),
                    3 => k.handlers.push((c, if rng.bool() { FaultHandlerAction::Ignore } else { FaultHandlerAction::Suspend })),
                    _ => {}
                }
            }
            let size = *rng.pick(&[40usize, 100, 200]);
            let cl = rng.below(5);
            let c = content(&mut rng, size, cl, 32, 1);
            let mut sc = two_party(&case, rng.next_u64(), &k, c);
            let n0 = first_pass_len(size, 32) + 2;
            let cause = rng.below(8);
            match cause {
                0 => sc.rules.push(Rule { from: 0, to: 1, m: Matcher::FdOffset(32 * rng.below((size as u64 + 31) / 32)), a: Action::Drop }),
                1 => sc.rules.push(Rule { from: 0, to: 1, m: Matcher::FromIdx(1 + rng.usize(n0)), a: Action::Drop }),
                2 => sc.rules.push(Rule { from: 0, to: 1, m: Matcher::KindAll(Kind::AckFin), a: Action::Drop }),
                3 => sc.rules.push(Rule { from: 1, to: 0, m: Matcher::KindAll(Kind::AckEof), a: Action::Drop }),
                4 => sc.rules.push(Rule { from: 1, to: 0, m: Matcher::KindAll(Kind::Finished), a: Action::Drop }),
                5 => sc.rules.push(Rule { from: 0, to: 1, m: Matcher::KindAll(Kind::Eof), a: Action::Drop }),
                6 => {
                    let who = rng.usize(2);
                    let trig = if rng.bool() { Trigger::AfterEmit(0, rng.usize(n0)) } else { Trigger::AfterArrive(1, rng.usize(n0 - 1)) };
                    sc.scripts.push(Script { trig, delay_ms: rng.below(3), act: Act::Prim(who, PrimKind::Cancel, 0) });
                }
                _ => {}
            }
            let kinds = [Kind::Metadata, Kind::FileData, Kind::Eof, Kind::AckEof, Kind::Nak, Kind::Finished, Kind::AckFin, Kind::KeepAlive];
            let delays = [0u64, 1, 400, 999, 1001, 2500, (k.tn as u64) * 1000 - 1, (k.tn as u64) * 1000 + 1, (k.ta as u64) * 1000 + 1, (k.ti as u64) * 1000 + 1];
            for _ in 0..(1 + rng.usize(4)) {
                let x = rng.usize(2);
                let ik = if x == 0 { *rng.pick(&[IndKind::Fault, IndKind::Finished, IndKind::Fault, IndKind::Abandon, IndKind::EoFSent]) } else { *rng.pick(&[IndKind::Fault, IndKind::Finished, IndKind::Fault, IndKind::Abandon, IndKind::EoFRecv, IndKind::MetadataRecv]) };
                let kind = if x == 1 { *rng.pick(&[Kind::Metadata, Kind::FileData, Kind::FileData, Kind::Eof, Kind::AckFin]) } else { *rng.pick(&[Kind::AckEof, Kind::Nak, Kind::Finished, Kind::KeepAlive]) };
                let d = if rng.chance(1, 4) { rng.below(9000) } else { *rng.pick(&delays) };
                sc.scripts.push(Script { trig: Trigger::AfterInd(x, ik, 0), delay_ms: d, act: Act::RedeliverKind(1 - x, kind, if rng.chance(1, 4) { 1 + rng.usize(2) } else { 0 }) });
            }
            if rng.bool() {
                let from = rng.usize(2);
                sc.rules.push(Rule { from, to: 1 - from, m: Matcher::KindAll(*rng.pick(&kinds)), a: Action::Dup(1 + rng.below(2) as u32, 300 + rng.below(6000)) });
            }
            sc.probe = true;
            sc.paced = rng.bool();
            // a late copy may start a new receive transaction up to ~2 limits after the first one ended
            sc.observe_ms += sc.observe_ms / 2 + 12_000;
            let desc = format!("{} handlers={:?} size={} cause={} late={:?} faults=[{}]", k.describe(), k.handlers, size, cause, sc.scripts.iter().map(|s| format!("{:?}+{}ms:{:?}", s.trig, s.delay_ms, s.act)).collect::<Vec<_>>(), rules_desc(&sc.rules));
            Some(Case::from(sc, &k, desc, false))
        }
        "prompt" => {
            // the sending user prompts (NAK / keep-alive) at arbitrary points, including while the receiver is
            // already waiting for the ACK of its Finished PDU (which the link keeps losing)
            let mut rng = Rng::derive(seed, 304, idx as u64);
            let mut k = rand_knobs(&mut rng, true);
            let t = C03_TIMERS[rng.usize(C03_TIMERS.len())];
            k.ti = t.0;
            k.ta = t.1;
            k.tn = t.2;
            k.limit = t.3;
            k.seg = 32;
            let size = *rng.pick(&[0usize, 40, 100, 200]);
            let cl = rng.below(5);
            let c = content(&mut rng, size, cl, 32, 1);
            let mut sc = two_party(&case, rng.next_u64(), &k, c);
            let n0 = first_pass_len(size, 32) + 2;
            match rng.below(3) {
                0 => sc.rules.push(Rule { from: 1, to: 0, m: Matcher::KindAll(Kind::Finished), a: Action::Drop }),
                1 => sc.rules.push(Rule { from: 1, to: 0, m: Matcher::KindFrom(Kind::Finished, 0), a: Action::Delay(1000 * (1 + rng.below(8))) }),
                _ => sc.rules.push(Rule { from: 0, to: 1, m: Matcher::Nth(rng.usize(n0)), a: Action::Drop }),
            }
            for _ in 0..(1 + rng.usize(3)) {
                let what = if rng.bool() { PrimKind::PromptNak } else { PrimKind::PromptKeepAlive };
                let trig = match rng.below(3) {
                    0 => Trigger::AfterEmit(0, rng.usize(n0)),
                    1 => Trigger::AfterInd(1, IndKind::Finished, 0),
                    _ => Trigger::AfterArrive(0, rng.usize(3)),
                };
                sc.scripts.push(Script { trig, delay_ms: rng.below(1500), act: Act::Prim(0, what, 0) });
            }
            sc.probe = true;
            let desc = format!("{} size={} prompts {:?} faults=[{}]", k.describe(), size, sc.scripts.iter().map(|s| format!("{:?}+{}ms", s.trig, s.delay_ms)).collect::<Vec<_>>(), rules_desc(&sc.rules));
            Some(Case::from(sc, &k, desc, false))
        }
        "rand" => {
            // arbitrary (unbounded) faults: heavy random loss in both directions
            let mut rng = Rng::derive(seed, 303, idx as u64);
            let mut k = rand_knobs(&mut rng, false);
            let t = C03_TIMERS[rng.usize(C03_TIMERS.len())];
            k.ti = t.0;
            k.ta = t.1;
            k.tn = t.2;
            k.limit = t.3;
            let seg = k.seg as usize;
            let size = rand_size(&mut rng, seg).min(6 * seg);
            let cl = rng.below(5);
            let c = content(&mut rng, size, cl, seg, 1);
            let mut sc = two_party(&case, rng.next_u64(), &k, c);
            let n0 = first_pass_len(size, seg) + 8;
            for _ in 0..rng.usize(12) {
                sc.rules.push(rand_fault(&mut rng, n0, 10, true));
            }
            if rng.bool() {
                let from = rng.usize(2);
                sc.rules.push(Rule { from, to: 1 - from, m: Matcher::KindAll(*rng.pick(&[Kind::Eof, Kind::AckEof, Kind::Finished, Kind::AckFin, Kind::Nak, Kind::Metadata, Kind::FileData])), a: Action::Drop });
            }
            sc.probe = true;
            sc.final_reports = true;
            sc.paced = rng.bool();
            let desc = format!("{} size={} faults=[{}]", k.describe(), size, rules_desc(&sc.rules));
            Some(Case::from(sc, &k, desc, false))
        }
        _ => None,
    }
}

/// C03 oracle: every transaction task ends within B after the last stimulus delivered to it.
pub fn judge_c03(info: &Info, log: &RunLog, rep: &mut Report) {
    let d = Dig::new(log);
    count_observed(rep, log);
    if log.budget_exceeded {
        rep.violate("event-budget", history_shape(&d, info, 0, 0), &info.case, witness(log, info, "event budget exceeded: a transaction keeps producing events"));
        return;
    }
    let mut tasks_judged = 0;
    {
        // PDUs delivered more than once (link duplicates and scripted re-deliveries)
        let mut seen = std::collections::HashSet::new();
        let mut again = 0u64;
        for r in &log.recs {
            if let Ev::Arrive { origin: Some(o), .. } = &r.ev {
                if !seen.insert(*o) {
                    again += 1;
                }
            }
        }
        rep.add("c03_repeated_deliveries", again);
    }
    for span in &d.tasks {
        // which transfer / entity does this task belong to
        let tr = (0..info.transfers.len()).find(|tr| d.id(*tr) == Some(span.id));
        let ent = match (tr, span.kind) {
            (Some(tr), TaskKind::Send) => info.transfers[tr].src,
            (Some(tr), TaskKind::Recv) => info.transfers[tr].dst,
            (None, _) => continue, // probe transfer or stray: judged elsewhere
        };
        let tr = tr.unwrap();
        let k = &info.knobs[ent];
        // exemptions named by the property
        // suspended by the user and not resumed since (a cancel also ends a suspension)
        let user_suspended = {
            let pr = d.prims(ent, tr);
            let last_sus = pr.iter().filter(|p| p.2 == PrimKind::Suspend && p.3).map(|p| p.0).max();
            match last_sus {
                None => false,
                Some(ls) => !pr.iter().any(|p| p.0 > ls && p.3 && matches!(p.2, PrimKind::Resume | PrimKind::Cancel)),
            }
        };
        // a limit fault whose configured handler is ignore / suspend was declared on this transaction
        let lenient_handler = d.faults(ent, span.id).iter().any(|f| k.handlers.iter().any(|(c, a)| *c == f.2.condition && matches!(a, FaultHandlerAction::Ignore | FaultHandlerAction::Suspend)));
        if user_suspended || lenient_handler {
            rep.count("c03_tasks_exempt");
            continue;
        }
        if span.spun {
            rep.violate("task-spins", history_shape(&d, info, ent, tr), &info.case, witness(log, info, &format!("{:?} task of {} iterated {} times without the clock moving", span.kind, span.id, cfdp_daemon::verif::SPIN_LIMIT)));
            continue;
        }
        tasks_judged += 1;
        let last_arr = d.arrivals(ent, span.id).iter().map(|a| a.1).filter(|t| span.end_us.map(|e| *t <= e).unwrap_or(true)).max().unwrap_or(0);
        let last_prim = d.prims(ent, tr).iter().filter(|p| p.3 && p.2 != PrimKind::Report).map(|p| p.1).max().unwrap_or(0);
        let reference = span.start_us.max(last_arr).max(last_prim);
        let b = bound_us(info, ent);
        match span.end_us {
            Some(e) if e <= reference + b => {
                rep.count("c03_tasks_ended_in_bound");
            }
            Some(e) => {
                rep.violate("task-ends-late", history_shape(&d, info, ent, tr), &info.case, witness(log, info, &format!("{:?} task of {} ended {:.3}s after its last stimulus; bound {:.3}s", span.kind, span.id, (e - reference) as f64 / 1e6, b as f64 / 1e6)));
            }
            None => {
                if log.end_us >= reference + b {
                    rep.violate("task-alive-after-bound", history_shape(&d, info, ent, tr), &info.case, witness(log, info, &format!("{:?} task of {} still alive {:.3}s after its last stimulus (bound {:.3}s); it never ended in the observation window", span.kind, span.id, (log.end_us - reference) as f64 / 1e6, b as f64 / 1e6)));
                } else {
                    rep.inconclusive("observation window shorter than the bound", &info.case);
                }
            }
        }
    }
    // the daemons keep serving
    if let Some(p) = &log.probe {
        rep.count("c03_probes");
        let ok = p.recv_success && p.send_success && p.file_ok && p.report_answered;
        if !ok || log.daemons_alive.iter().any(|a| !*a) {
            let key = format!("probe recv_success={} send_success={} file_ok={} report_answered={} daemons_alive={:?}", p.recv_success, p.send_success, p.file_ok, p.report_answered, log.daemons_alive);
            rep.violate("daemon-stops-serving", key, &info.case, witness(log, info, "after the faulty exchange a fresh transfer over a clean link / a Report did not complete"));
        }
    }
    if tasks_judged > 0 && d.faults_applied() > 0 {
        rep.nontrivial(case_sig(info, log));
        rep.sample(sample_json(log, info, 30));
    }
}

pub fn run_c03(tier: &str, seed: u64, replay: Option<&str>) -> (Meta, Report) {
    let thorough = tier == "thorough";
    let meta = Meta {
        property: "C03",
        level: "fault_enumeration",
        rule: "blackout = link cut (e0->e1, e1->e0, or both) starting at EVERY emission index of the exchange x {ack, unack, unack+closure} x 4 NAK procedures x timer grid {(Ti,Ta,Tn,L)} x sizes {0, 40, 100} (complete); cancel = user cancel at either entity at a random index followed by a cut; rand = up to 12 random faults plus optional loss of every PDU of one kind; prompt = Prompt(NAK/keep-alive) requests of the sending user at random points, also while the receiver waits for the ACK of a Finished PDU that the link loses or delays; primseq = sequences of user primitives (cancel/suspend/resume/prompt in 8 orders) at either entity at a random point, with the link going dark at a random point; late = a fatal cause (one kind of PDU always lost, a cut, a user cancel, or none) with per-condition handlers, then copies of earlier PDUs of any kind delivered at chosen delays after the Fault/Finished/Abandon indication of either entity, plus long-spaced duplicates of every PDU of one kind; stall = the receiver's transport (at any point) or the sender's (once its EOF has gone out) stops taking PDUs for good: back-pressure instead of loss; plus the C02 single-fault placements. Every run ends with a probe transfer and Report over a healed link. distinct_nontrivial = distinct (config, size, event-order) signatures among runs where a fault fired and at least one task was judged.".into(),
        exhaustive: false,
        assumptions: vec!["timeouts >= 1 s".into(), "bound B = 2L(Ti+Ta+Tn)+d+4D+10 s after the last PDU/primitive delivered to the task; observation window 3B".into(), "task end is observed through the cfg-guarded TaskGuard drop hook (H3), spin through its tick counter".into()],
        require: vec![("c03_tasks_ended_in_bound".into(), 1000), ("c03_probes".into(), 500)],
        extra: vec![],
    };
    if let Some(r) = replay {
        let p: Vec<&str> = r.split(':').collect();
        let case = if p[0] == "C02" { c02_case(p[1], p[2].parse().unwrap(), p[3].parse().unwrap()) } else { c03_case(p[1], p[2].parse().unwrap(), p[3].parse().unwrap()) }.expect("case");
        return (meta, run_single(case, judge_c03));
    }
    let nb = c03_blackout_space().len();
    let (stride, nc, nr) = if thorough { (1usize, 400_000, 400_000) } else { (4usize, 2_500, 2_500) };
    let off = (seed % stride as u64) as usize;
    let m = (nb - off + stride - 1) / stride;
    let mut rep = run_cases(m, "c03-blackout", move |i| c03_case("blackout", off + i * stride, seed), judge_c03);
    rep.add("cases:blackout", m as u64);
    rep.merge(run_cases(nc, "c03-cancel", move |i| c03_case("cancel", i, seed), judge_c03));
    rep.add("cases:cancel", nc as u64);
    rep.merge(run_cases(nr, "c03-rand", move |i| c03_case("rand", i, seed), judge_c03));
    rep.add("cases:rand", nr as u64);
    rep.merge(run_cases(nr / 2, "c03-prompt", move |i| c03_case("prompt", i, seed), judge_c03));
    rep.add("cases:prompt", (nr / 2) as u64);
    rep.merge(run_cases(nr, "c03-primseq", move |i| c03_case("primseq", i, seed), judge_c03));
    rep.add("cases:primseq", nr as u64);
    rep.merge(run_cases(nr, "c03-late", move |i| c03_case("late", i, seed), judge_c03));
    rep.add("cases:late", nr as u64);
    rep.merge(run_cases(nr / 2, "c03-stall", move |i| c03_case("stall", i, seed), judge_c03));
    rep.add("cases:stall", (nr / 2) as u64);

    let n1 = c02_sys1_space().len();
    let st2 = if thorough { 1 } else { 5 };
    let m2 = n1 / st2;
    rep.merge(run_cases(m2, "c03-c02sys1", move |i| c02_case("sys1", i * st2, seed), judge_c03));
    rep.add("cases:c02-sys1", m2 as u64);
    let mut meta = meta;
    meta.exhaustive = false;
    meta.extra.push(("x_blackout_space".into(), J::U(nb as u64)));
    (meta, rep)
}

/// Rebuilds a case of any simulator family from its id (`<PROP>:<family>:<index>:<seed>`).
pub fn any_case(id: &str) -> Option<Case> {
    let p: Vec<&str> = id.split(':').collect();
    if p.len() < 4 {
        return None;
    }
    let (fam, idx, seed) = (p[1], p[2].parse().ok()?, p[3].parse().ok()?);
    match p[0] {
        "C01" => c01_case(fam, idx, seed),
        "C02" => c02_case(fam, idx, seed),
        "C03" => c03_case(fam, idx, seed),
        "C04" => crate::p_final::c04_case(fam, idx, seed),
        "C10" => crate::p_final::c10_case(fam, idx, seed),
        "C13b" => crate::p_final::c13b_case(fam, idx, seed),
        "C18" => crate::p_proto::c18_case(fam, idx, seed),
        "C19" => crate::p_proto::c19_case(fam, idx, seed),
        "C20" => crate::p_proto::c20_case(fam, idx, seed),
        _ => None,
    }
}
