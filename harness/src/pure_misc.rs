//! C14 (modular checksum) and C17a (Counter/Timer against a reference under the paused clock).
use crate::report::{Meta, Report};
use crate::util::{fnv1a, fnv_mix, run_pool, Rng, J};
use cfdp_core::filestore::{ChecksumType, FileChecksum};
use cfdp_daemon::verif::Timer;
use std::io::{Cursor, Read, Seek, SeekFrom, Write};
use std::panic::{catch_unwind, AssertUnwindSafe};
use std::time::Duration;

// ------------------------------------------------------------------------------------- C14

fn ref_checksum(data: &[u8]) -> u32 {
    let mut sum: u32 = 0;
    for (i, b) in data.iter().enumerate() {
        sum = sum.wrapping_add((*b as u32) << (8 * (3 - (i % 4))));
    }
    sum
}

/// A reader that returns scripted short reads.
struct Chunky {
    data: Vec<u8>,
    pos: usize,
    chunks: Vec<usize>,
    k: usize,
}
impl Read for Chunky {
    fn read(&mut self, buf: &mut [u8]) -> std::io::Result<usize> {
        if self.pos >= self.data.len() || buf.is_empty() {
            return Ok(0);
        }
        let c = self.chunks[self.k % self.chunks.len()].max(1);
        self.k += 1;
        let n = c.min(buf.len()).min(self.data.len() - self.pos);
        buf[..n].copy_from_slice(&self.data[self.pos..self.pos + n]);
        self.pos += n;
        Ok(n)
    }
}
impl Seek for Chunky {
    fn seek(&mut self, p: SeekFrom) -> std::io::Result<u64> {
        let np: i64 = match p {
            SeekFrom::Start(x) => x as i64,
            SeekFrom::Current(d) => self.pos as i64 + d,
            SeekFrom::End(d) => self.data.len() as i64 + d,
        };
        if np < 0 {
            return Err(std::io::Error::new(std::io::ErrorKind::InvalidInput, "negative seek"));
        }
        self.pos = np as usize;
        Ok(self.pos as u64)
    }
}

fn content(rng: &mut Rng, len: usize, class: u64) -> Vec<u8> {
    match class % 6 {
        0 => rng.bytes(len),
        1 => vec![0u8; len],
        2 => vec![0xff; len],
        3 => (0..len).map(|i| (i % 251) as u8).collect(),
        4 => {
            // word pairs summing to 0 mod 2^32
            let mut v = Vec::with_capacity(len);
            while v.len() + 8 <= len {
                let w = rng.next_u64() as u32;
                v.extend_from_slice(&w.to_be_bytes());
                v.extend_from_slice(&(0u32.wrapping_sub(w)).to_be_bytes());
            }
            while v.len() < len {
                v.push(0);
            }
            v
        }
        _ => {
            let mut v = vec![0u8; len];
            if len > 0 {
                let k = rng.usize(len);
                v[k] = 1 + rng.byte() % 255;
            }
            v
        }
    }
}

fn chunk_script(rng: &mut Rng, which: u64) -> (String, Vec<usize>) {
    match which % 8 {
        0 => ("1".into(), vec![1]),
        1 => ("3".into(), vec![3]),
        2 => ("1..9".into(), (0..17).map(|_| 1 + rng.usize(9)).collect()),
        3 => ("8191".into(), vec![8191]),
        4 => ("8193".into(), vec![8193]),
        5 => ("5,7".into(), vec![5, 7]),
        6 => ("random".into(), (0..13).map(|_| 1 + rng.usize(9000)).collect()),
        _ => ("4k-aligned".into(), vec![4096]),
    }
}

fn c14_case(rep: &mut Report, seed: u64, i: u64, dir: &str, sample: bool) {
    let mut rng = Rng::derive(seed, 14, i);
    let case = format!("C14/{}/{}", seed, i);
    // lengths: every length 0..4200 cyclically, then around multiples of 8192
    let len = if i < 4201 {
        i as usize
    } else {
        let k = 1 + rng.usize(5);
        let d = rng.usize(9) as i64 - 4;
        ((8192 * k) as i64 + d).max(0) as usize
    };
    let class = rng.next_u64();
    let data = content(&mut rng, len, class);
    let want = ref_checksum(&data);
    let which = rng.next_u64();
    let (cname, chunks) = chunk_script(&mut rng, which);
    if sample {
        rep.sample(J::obj().set("case", J::s(&case)).set("len", J::U(len as u64)).set("content_class", J::U(class % 6)).set("chunking", J::s(&cname)).set("reference_checksum", J::U(want as u64)));
    }
    let mut readers: Vec<(String, Box<dyn FnMut(&[u8], ChecksumType) -> Result<u32, String>>)> = vec![];
    readers.push((
        "cursor".into(),
        Box::new(|d: &[u8], t| Cursor::new(d.to_vec()).checksum(t).map_err(|e| e.to_string())),
    ));
    let chunks2 = chunks.clone();
    readers.push((
        format!("chunked:{}", cname),
        Box::new(move |d: &[u8], t| {
            let mut c = Chunky { data: d.to_vec(), pos: d.len() / 2, chunks: chunks2.clone(), k: 0 };
            c.checksum(t).map_err(|e| e.to_string())
        }),
    ));
    if i % 16 == 0 {
        let path = format!("{}/c14_{}.bin", dir, i);
        readers.push((
            "file".into(),
            Box::new(move |d: &[u8], t| {
                let mut f = std::fs::OpenOptions::new().create(true).truncate(true).read(true).write(true).open(&path).map_err(|e| e.to_string())?;
                f.write_all(d).map_err(|e| e.to_string())?;
                let r = f.checksum(t).map_err(|e| e.to_string());
                drop(f);
                let _ = std::fs::remove_file(&path);
                r
            }),
        ));
    }
    for (rname, f) in readers.iter_mut() {
        rep.eval();
        rep.count(&format!("reader:{}", rname.split(':').next().unwrap_or("")));
        let kind = rname.split(':').next().unwrap_or("").to_string();
        let r = catch_unwind(AssertUnwindSafe(|| f(&data, ChecksumType::Modular)));
        match r {
            Err(_) => rep.violate("checksum-panic", format!("{}:panic", kind), &case, format!("checksum panicked, len {} reader {}", len, rname)),
            Ok(Err(e)) => rep.inconclusive(&format!("io error in checksum: {}", e), &case),
            Ok(Ok(got)) => {
                rep.nontrivial(fnv_mix(fnv1a(rname.as_bytes()), fnv1a(&data)));
                if got != want {
                    rep.violate(
                        "modular-checksum",
                        format!("{}:wrong-sum:len%4={}", kind, if len % 4 == 0 { "0" } else { "nonzero" }),
                        &case,
                        format!("len {} content class {} reader {}: got {:#010x} expected {:#010x}", len, class % 6, rname, got, want),
                    );
                }
                // single byte flips change the sum
                if len > 0 {
                    let npos = if len <= 64 { len } else { 6 };
                    for j in 0..npos {
                        let p = if len <= 64 { j } else { rng.usize(len) };
                        let mut d2 = data.clone();
                        d2[p] ^= 1 << rng.below(8);
                        rep.eval();
                        if let Ok(Ok(g2)) = catch_unwind(AssertUnwindSafe(|| f(&d2, ChecksumType::Modular))) {
                            if g2 == got {
                                rep.violate(
                                    "checksum-sensitivity",
                                    format!("{}:byte-flip-unnoticed", kind),
                                    &case,
                                    format!("len {} flipping byte {} left the checksum at {:#010x} (reader {})", len, p, got, rname),
                                );
                            } else {
                                rep.count("flips-detected");
                            }
                        }
                    }
                }
            }
        }
        rep.eval();
        match catch_unwind(AssertUnwindSafe(|| f(&data, ChecksumType::Null))) {
            Ok(Ok(0)) => rep.count("null-is-zero"),
            Ok(Ok(x)) => rep.violate("null-checksum", format!("{}:nonzero", kind), &case, format!("null checksum returned {}", x)),
            Ok(Err(e)) => rep.inconclusive(&format!("io error in checksum: {}", e), &case),
            Err(_) => rep.violate("checksum-panic", format!("{}:panic", kind), &case, "null checksum panicked".into()),
        }
    }
}

pub fn run_c14(tier: &str, seed: u64, replay: Option<&str>) -> (Meta, Report) {
    std::panic::set_hook(Box::new(|_| {}));
    let meta = Meta {
        property: "C14",
        level: "exploration",
        rule: "case i<=4200 has length i, later cases lengths 8192*k-4..8192*k+4; content class random / zeros / 0xff / ramp / word pairs summing to 0 / single non-zero byte; each input is checksummed through a Cursor, through a Read+Seek returning scripted short reads (1, 3, 1..9, 5/7, 8191, 8193, random, 4096) starting from a non-zero position, and (every 16th case) through a real File; compared with the CCSDS definition computed byte-wise; then single-bit flips (all bytes for inputs <= 64 bytes, 6 sampled otherwise) must change the result; Null must give 0. distinct_nontrivial = distinct (reader, content) pairs".into(),
        exhaustive: false,
        assumptions: vec!["the reference is the 32-bit wrapping sum of big-endian words of the zero-padded content".into()],
        require: vec![("flips-detected".into(), 1000), ("reader:chunked".into(), 1000), ("reader:file".into(), 50)],
        extra: vec![],
    };
    let dir = crate::util::scratch("c14");
    if let Some(case) = replay {
        let parts: Vec<&str> = case.split('/').collect();
        let mut rep = Report::new();
        c14_case(&mut rep, parts[1].parse().unwrap(), parts[2].parse().unwrap(), &dir, true);
        let _ = std::fs::remove_dir_all(&dir);
        return (meta, rep);
    }
    let n = if tier == "thorough" { 60_000 } else { 6_000 };
    let d2 = dir.clone();
    let reps = run_pool(
        n,
        crate::util::n_threads(),
        120,
        |_| Report::new(),
        move |i| format!("C14/{}/{}", seed, i),
        move |rep, i| c14_case(rep, seed, i as u64, &d2, i % 1499 == 5),
    );
    let _ = std::fs::remove_dir_all(&dir);
    let mut rep = Report::new();
    for r in reps {
        rep.merge(r);
    }
    (meta, rep)
}

// ------------------------------------------------------------------------------------ C17a

#[derive(Clone, Debug)]
struct RefCounter {
    start_ms: u64,
    timeout_ms: u64,
    max: u32,
    count: u32,
    occurred: bool,
    paused: bool,
}
impl RefCounter {
    fn update(&mut self, now: u64) {
        if self.paused {
            return;
        }
        let k = (now - self.start_ms) / self.timeout_ms;
        if k > 0 {
            self.count = (self.count as u64 + k).min(self.max as u64) as u32;
            self.start_ms += k * self.timeout_ms;
            self.occurred = true;
        }
    }
    fn restart(&mut self, now: u64) {
        self.update(now);
        self.start_ms = now;
        self.paused = false;
        self.occurred = false;
    }
    fn reset(&mut self, now: u64) {
        self.start_ms = now;
        self.paused = false;
        self.occurred = false;
        self.count = 0;
    }
    fn pause(&mut self, now: u64) {
        self.update(now);
        self.paused = true;
    }
    fn until(&self, now: u64) -> u64 {
        (self.start_ms + self.timeout_ms).saturating_sub(now)
    }
}

fn c17a_case(rep: &mut Report, seed: u64, i: u64, sample: bool) {
    let case = format!("C17a/{}/{}", seed, i);
    let mut rng = Rng::derive(seed, 17, i);
    let touts: [u64; 3] = [1 + rng.below(5), 1 + rng.below(30), 1 + rng.below(8)];
    let maxes: [u32; 3] = [1 + rng.below(5) as u32, 1 + rng.below(5) as u32, 1 + rng.below(3) as u32];
    let nsteps = 30 + rng.usize(60);
    let mut script: Vec<(u8, usize, u64)> = vec![];
    for _ in 0..nsteps {
        let op = rng.below(10) as u8;
        let which = rng.usize(3);
        // advance amounts: fractions of a timeout, exact multiples, just below / above
        let t = touts[which] * 1000;
        let adv = match rng.below(8) {
            0 => t,
            1 => t - 1,
            2 => t + 1,
            3 => t / 2,
            4 => t * (1 + rng.below(4)),
            5 => rng.below(400),
            6 => 1,
            _ => rng.below(3 * t),
        };
        script.push((op, which, adv));
    }
    if sample {
        rep.sample(J::obj().set("case", J::s(&case)).set("timeouts_s", J::s(format!("{:?}", touts))).set("limits", J::s(format!("{:?}", maxes))).set("script(op,counter,advance_ms)", J::s(format!("{:?}", &script[..script.len().min(12)]))));
    }
    let rt = tokio::runtime::Builder::new_current_thread().enable_time().start_paused(true).build().unwrap();
    let script2 = script.clone();
    let res = catch_unwind(AssertUnwindSafe(|| {
        rt.block_on(async move {
            let t0 = tokio::time::Instant::now();
            let mut timer = Timer::new(touts[0] as i64, maxes[0], touts[1] as i64, maxes[1], touts[2] as i64, maxes[2]);
            let mut r: Vec<RefCounter> = (0..3)
                .map(|k| RefCounter { start_ms: 0, timeout_ms: touts[k] * 1000, max: maxes[k], count: 0, occurred: false, paused: true })
                .collect();
            let mut fails: Vec<(String, String)> = vec![];
            let mut nsteps = 0u64;
            for (step, (op, which, adv)) in script2.iter().enumerate() {
                let now = t0.elapsed().as_millis() as u64;
                let opname;
                match op {
                    0 | 1 => {
                        opname = "restart";
                        match which {
                            0 => timer.restart_inactivity(),
                            1 => timer.restart_ack(),
                            _ => timer.restart_nak(),
                        };
                        r[*which].restart(now);
                    }
                    2 => {
                        opname = "reset";
                        match which {
                            0 => timer.reset_inactivity(),
                            1 => timer.reset_ack(),
                            _ => timer.reset_nak(),
                        };
                        r[*which].reset(now);
                    }
                    3 => {
                        opname = "pause";
                        match which {
                            0 => timer.inactivity.pause(),
                            1 => timer.ack.pause(),
                            _ => timer.nak.pause(),
                        };
                        r[*which].pause(now);
                    }
                    _ => {
                        opname = "advance";
                        tokio::time::advance(Duration::from_millis(*adv)).await;
                    }
                }
                nsteps += 1;
                let now = t0.elapsed().as_millis() as u64;
                // observe every counter
                for k in 0..3 {
                    let c = match k {
                        0 => &mut timer.inactivity,
                        1 => &mut timer.ack,
                        _ => &mut timer.nak,
                    };
                    // until_timeout is read before the updating queries, as the transaction loop does
                    let until = c.until_timeout().as_millis() as u64;
                    let want_until = r[k].until(now);
                    r[k].update(now);
                    let occ = c.timeout_occurred();
                    let lim = c.limit_reached();
                    let want_lim = r[k].count == r[k].max;
                    if !r[k].paused && until != want_until {
                        fails.push((format!("until_timeout:after-{}", opname), format!("step {} {}: counter {} until_timeout {} ms, reference {} ms (now {} ms)", step, opname, k, until, want_until, now)));
                    }
                    if occ != r[k].occurred {
                        fails.push((format!("timeout_occurred:{}:after-{}", if occ { "early" } else { "missed" }, opname), format!("step {} {}: counter {} timeout_occurred {} reference {} (now {} ms, ref {:?})", step, opname, k, occ, r[k].occurred, now, r[k])));
                    }
                    if lim != want_lim {
                        fails.push((format!("limit_reached:{}:after-{}", if lim { "early" } else { "late" }, opname), format!("step {} {}: counter {} limit_reached {} reference count {}/{} (now {} ms)", step, opname, k, lim, r[k].count, r[k].max, now)));
                    }
                    if !fails.is_empty() {
                        return (fails, nsteps);
                    }
                }
                // aggregate
                let agg = timer.until_timeout();
                let want = (0..3).filter(|k| !r[*k].paused).map(|k| r[k].until(now)).min();
                let ok = match want {
                    None => agg == Duration::MAX,
                    Some(w) => agg.as_millis() as u64 == w,
                };
                if !ok {
                    fails.push(("timer-until_timeout".into(), format!("step {}: Timer::until_timeout {:?} reference {:?}", step, agg, want)));
                    return (fails, nsteps);
                }
            }
            (fails, nsteps)
        })
    }));
    rep.eval();
    match res {
        Err(_) => rep.violate("timer-panic", "panic".into(), &case, "Counter/Timer panicked".into()),
        Ok((fails, n)) => {
            rep.add("timer-steps", n);
            rep.nontrivial(fnv1a(format!("{:?}{:?}{:?}", touts, maxes, script).as_bytes()));
            for (k, d) in fails {
                rep.violate("counter-vs-reference", k, &case, d);
            }
        }
    }
}

pub fn run_c17a(rep: &mut Report, tier: &str, seed: u64, replay: Option<&str>) {
    if let Some(case) = replay {
        let parts: Vec<&str> = case.split('/').collect();
        c17a_case(rep, parts[1].parse().unwrap(), parts[2].parse().unwrap(), true);
        return;
    }
    let n = if tier == "thorough" { 40_000 } else { 4_000 };
    let reps = run_pool(
        n,
        crate::util::n_threads(),
        120,
        |_| Report::new(),
        move |i| format!("C17a/{}/{}", seed, i),
        move |rep, i| c17a_case(rep, seed, i as u64, i % 1999 == 1),
    );
    for r in reps {
        rep.merge(r);
    }
}

#[allow(dead_code)]
pub fn meta_c17a_only() -> Meta {
    Meta {
        property: "C17",
        level: "exploration",
        rule: "".into(),
        exhaustive: false,
        assumptions: vec![],
        require: vec![],
        extra: vec![],
    }
}
