//! C18 (unacknowledged mode / closure), C19 (suspend / resume), C20 (progress figures).
use crate::e1::*;
use crate::report::{Meta, Report};
use crate::sim::*;
use crate::simgen::*;
use crate::util::{Rng, J};
use cfdp_core::daemon::Indication;
use cfdp_core::pdu::*;
use cfdp_daemon::verif::TaskKind;

fn ack() -> TransmissionMode {
    TransmissionMode::Acknowledged
}
fn unack() -> TransmissionMode {
    TransmissionMode::Unacknowledged
}

pub fn parse_case(r: &str) -> (String, String, usize, u64) {
    let p: Vec<&str> = r.split(':').collect();
    (p[0].to_string(), p[1].to_string(), p[2].parse().unwrap(), p[3].parse().unwrap())
}

/// distinct bytes of [0,size) covered by the file-data PDUs in `pdus`
pub fn covered_bytes<'a>(pdus: impl Iterator<Item = &'a PDU>, size: usize) -> Vec<bool> {
    let mut c = vec![false; size];
    for p in pdus {
        if let PDUPayload::FileData(FileDataPDU::Unsegmented(u)) = &p.payload {
            for i in 0..u.file_data.len() {
                if let Some(x) = c.get_mut(u.offset as usize + i) {
                    *x = true;
                }
            }
        }
    }
    c
}

// ===================================================================================== C18

const C18_SIZES: [usize; 6] = [0, 1, 32, 33, 96, 100];

/// (closure, size idx, content class, lost e0->e1 indices, lost e1->e0 indices, dup EOF)
type C18Spec = (bool, usize, u64, Vec<usize>, Vec<usize>, bool);

fn c18_space() -> Vec<C18Spec> {
    let mut v: Vec<C18Spec> = vec![];
    for closure in [false, true] {
        for (si, s) in C18_SIZES.iter().enumerate() {
            let n0 = first_pass_len(*s, 32);
            for class in [0u64, 2, 3] {
                // no loss
                v.push((closure, si, class, vec![], vec![], false));
                v.push((closure, si, class, vec![], vec![], true));
                // singles
                for i in 0..n0 {
                    v.push((closure, si, class, vec![i], vec![], false));
                }
                // doubles forward
                for i in 0..n0 {
                    for j in (i + 1)..n0 {
                        v.push((closure, si, class, vec![i, j], vec![], false));
                    }
                }
                if closure {
                    for j in 0..3 {
                        v.push((closure, si, class, vec![], vec![j], false));
                        for i in 0..n0 {
                            v.push((closure, si, class, vec![i], vec![j], false));
                        }
                    }
                    v.push((closure, si, class, vec![], vec![0, 1], false));
                    v.push((closure, si, class, vec![], vec![0, 1, 2, 3, 4, 5, 6, 7], false));
                }
            }
        }
    }
    v
}

pub fn c18_case(fam: &str, idx: usize, seed: u64) -> Option<Case> {
    let case = format!("C18:{}:{}:{}", fam, idx, seed);
    match fam {
        "sys" => {
            let sp = c18_space();
            let (closure, si, class, l0, l1, dup_eof) = sp.get(idx)?.clone();
            let mut k = Knobs::base();
            k.mode = unack();
            k.closure = closure;
            k.seg = 32;
            let mut rng = Rng::derive(seed, 1801, idx as u64);
            let c = content(&mut rng, C18_SIZES[si], class, 32, 0xC18);
            let mut sc = two_party(&case, seed ^ idx as u64, &k, c);
            for i in &l0 {
                sc.rules.push(Rule { from: 0, to: 1, m: Matcher::Nth(*i), a: Action::Drop });
            }
            for j in &l1 {
                sc.rules.push(Rule { from: 1, to: 0, m: Matcher::Nth(*j), a: Action::Drop });
            }
            if dup_eof {
                sc.rules.push(Rule { from: 0, to: 1, m: Matcher::KindNth(Kind::Eof, 0), a: Action::Dup(1, 2) });
            }
            let desc = format!("{} size={} content={} lost e0->e1 {:?} lost e1->e0 {:?} dupEOF={}", k.describe(), C18_SIZES[si], content_name(class), l0, l1, dup_eof);
            Some(Case::from(sc, &k, desc, false))
        }
        "rand" => {
            let mut rng = Rng::derive(seed, 1802, idx as u64);
            let mut k = rand_knobs(&mut rng, false);
            k.mode = unack();
            let seg = k.seg as usize;
            let size = rand_size(&mut rng, seg);
            let class = *rng.pick(&[0u64, 1, 2, 3]);
            let tag = rng.next_u64();
            let c = content(&mut rng, size, class, seg, tag);
            let mut sc = two_party(&case, rng.next_u64(), &k, c);
            let n0 = first_pass_len(size, seg) + 1;
            for _ in 0..rng.usize(4) {
                let mut r = rand_fault(&mut rng, n0, 4, true);
                if k.crc && rng.chance(1, 4) {
                    r.a = Action::Corrupt(rng.usize(seg + 8), 1 << rng.below(8));
                }
                sc.rules.push(r);
            }
            sc.paced = rng.chance(3, 4);
            sc.latency_ms = *rng.pick(&[0, 1, 5, 40]);
            // a destination that cannot be opened (its directory does not exist): the delivery fails at the very
            // end, and that, too, is an outcome the receiver has to report
            if rng.chance(1, 8) {
                sc.transfers[0].dst_name = "nodir/dst0.bin".into();
            }
            let desc = format!("{} size={} content={} dst={} faults=[{}] paced={} lat={}ms", k.describe(), size, content_name(class), sc.transfers[0].dst_name, rules_desc(&sc.rules), sc.paced, sc.latency_ms);
            Some(Case::from(sc, &k, desc, false))
        }
        "cancel" => {
            // closure requested and a user cancel at either entity in the middle of the exchange; for a
            // receiver-side cancel the sender's EOF is still in flight and arrives afterwards. The closure
            // procedure still applies: the sender waits for the Finished PDU and reports what it says; a
            // cancelled receiver is not revived by the late EOF.
            let mut rng = Rng::derive(seed, 1803, idx as u64);
            let mut k = Knobs::base();
            k.mode = unack();
            k.closure = true;
            k.seg = 32;
            let size = 32 * (3 + rng.usize(10)) - rng.usize(5);
            let class = *rng.pick(&[0u64, 1, 2, 3]);
            let c = content(&mut rng, size, class, 32, 0xC18);
            let mut sc = two_party(&case, rng.next_u64(), &k, c);
            let n0 = first_pass_len(size, 32);
            let who = rng.usize(2);
            let at = 1 + rng.usize(n0 - 2);
            let trig = if who == 0 { Trigger::AfterEmit(0, at) } else { Trigger::AfterArrive(1, (n0 - 2).min(at + n0 / 2)) };
            sc.scripts.push(Script { trig, delay_ms: rng.below(2), act: Act::Prim(who, PrimKind::Cancel, 0) });
            if who == 1 {
                sc.rules.push(Rule { from: 0, to: 1, m: Matcher::KindAll(Kind::Eof), a: Action::Delay(100 + rng.below(1500)) });
            } else if rng.chance(1, 3) {
                sc.rules.push(Rule { from: 0, to: 1, m: Matcher::Nth(rng.usize(at)), a: Action::Drop });
            }
            sc.paced = true;
            let desc = format!("{} size={} cancel at e{} {:?} faults=[{}]", k.describe(), size, who, sc.scripts[0].trig, rules_desc(&sc.rules));
            Some(Case::from(sc, &k, desc, false))
        }
        _ => None,
    }
}

/// C18 with a user cancel (closure requested): direction rule, the sender still waits for the Finished PDU and
/// reports its outcome, and a cancelled receiver that is still open is not revived by the late EOF.
pub fn judge_c18_cancel(info: &Info, log: &RunLog, rep: &mut Report) {
    judge_c18_kinds(info, log, rep);
    let d = Dig::new(log);
    count_observed(rep, log);
    let t = &info.transfers[0];
    let id = match d.id(0) {
        Some(i) => i,
        None => return,
    };
    let w = |head: &str| witness(log, info, head);
    let who = if d.prims(t.src, 0).iter().any(|p| p.2 == PrimKind::Cancel && p.3) { "sender" } else { "receiver" };
    rep.count(&format!("c18_cancel_runs:{}", who));
    // the sender waits for Finished and reports it
    if let Some(fa) = d.arrivals(t.src, id).into_iter().find(|a| a.2 == Kind::Finished) {
        let alive = d.spans(id, TaskKind::Send).iter().any(|s| s.start_us <= fa.1 && s.end_us.map(|e| e >= fa.1).unwrap_or(true));
        let limit_hit = d.faults(t.src, id).iter().any(|f| f.1 <= fa.1) || d.abandons(t.src, id).iter().any(|f| f.1 <= fa.1);
        if !alive && !limit_hit {
            rep.violate("closure-sender-did-not-wait", format!("closure=true cancel-at={}", who), &info.case, w("closure requested, but the sender had ended (without any limit fault) before the receiver's Finished arrived"));
        } else if alive {
            if let PDUPayload::Directive(Operations::Finished(fp)) = &fa.3.payload {
                let got = d.finished(t.src, id).iter().any(|x| x.0 > fa.0 && x.2.delivery_code == fp.delivery_code);
                if got {
                    rep.count("c18_checked:cancelled-sender-reports-finished");
                } else {
                    rep.violate("closure-sender-report", format!("closure=true cancel-at={} pdu={:?}/{:?}", who, fp.condition, fp.delivery_code), &info.case, w("the sender received Finished but gave its user no Finished indication"));
                }
            }
        }
    }
    // a receiver that reported the cancel and is still open is not revived by the EOF that was in flight
    if let Some((ci, ct)) = d.finished(t.dst, id).into_iter().find(|x| x.2.report.condition == Condition::CancelReceived).map(|x| (x.0, x.1)) {
        let respawned = d.spans(id, TaskKind::Recv).iter().any(|sp| sp.start_us > ct);
        if !respawned {
            rep.count("c18_checked:cancelled-receiver-stays-cancelled");
            if let Some(s) = d.finished(t.dst, id).into_iter().find(|x| x.0 > ci && x.2.delivery_code == DeliveryCode::Complete) {
                rep.violate("cancelled-receiver-revived", format!("closure=true cond={:?}", s.2.report.condition), &info.case, w("the receiver reported the transaction cancelled and later, still the same transaction, a complete delivery"));
            }
            let after: Vec<_> = d.dests(0).into_iter().filter(|x| x.1 > ct).collect();
            if after.iter().any(|x| x.2.is_some()) {
                rep.violate("cancelled-receiver-revived", "closure=true file-appears".to_string(), &info.case, w("a file appeared under the destination name after the receiver had reported the transaction cancelled"));
            }
        }
    }
    rep.nontrivial(case_sig(info, log));
}

pub fn judge_c18(info: &Info, log: &RunLog, rep: &mut Report) {
    let d = Dig::new(log);
    count_observed(rep, log);
    let t = &info.transfers[0];
    let k = &info.knobs[0];
    let id = match d.id(0) {
        Some(i) => i,
        None => {
            rep.inconclusive("Put was not answered", &info.case);
            return;
        }
    };
    let cfgkey = format!("closure={}", k.closure);
    let w = |head: &str| witness(log, info, head);
    rep.count(&format!("c18_runs:{}", cfgkey));
    // 1. direction rcv -> snd: nothing but Finished (closure only)
    for e in d.emits(t.dst, id) {
        let bad = match e.3 {
            Kind::Finished => !k.closure,
            _ => true,
        };
        if bad {
            rep.violate("unack-receiver-emits", format!("{} kind={}", cfgkey, kind_short(e.3)), &info.case, w(&format!("receiver emitted {} in unacknowledged mode", kind_short(e.3))));
        }
    }
    rep.count("c18_checked:receiver-direction");
    // 2. direction snd -> rcv: metadata, one tiling, EOF
    let em = d.emits(t.src, id);
    let mut md = 0;
    let mut eof_ok = 0;
    let mut cursor = 0usize;
    let seg = k.seg as usize;
    for e in &em {
        match (&e.4.payload, e.3) {
            (_, Kind::Metadata) => md += 1,
            (PDUPayload::FileData(FileDataPDU::Unsegmented(u)), _) => {
                let want = seg.min(t.content.len() - cursor.min(t.content.len()));
                if u.offset as usize != cursor || u.file_data.len() != want {
                    rep.violate("unack-sender-tiling", format!("{} got=({},{}) expected=({},{})", cfgkey, if u.offset as usize == cursor { "cursor" } else if (u.offset as usize) < cursor { "repeat" } else { "skip" }, if u.file_data.len() == want { "len-ok" } else { "len-bad" }, "cursor", "tile"), &info.case, w(&format!("file data PDU off={} len={} but the next tile is off={} len={}", u.offset, u.file_data.len(), cursor, want)));
                }
                cursor = u.offset as usize + u.file_data.len();
            }
            (PDUPayload::Directive(Operations::EoF(e2)), _) => {
                if e2.condition == Condition::NoError {
                    eof_ok += 1;
                    if cursor != t.content.len() {
                        rep.violate("unack-sender-tiling", format!("{} EOF before the file was tiled", cfgkey), &info.case, w(&format!("EOF(NoError) emitted with the cursor at {} of {}", cursor, t.content.len())));
                    }
                }
            }
            (_, kk) => {
                rep.violate("unack-sender-emits", format!("{} kind={}", cfgkey, kind_short(kk)), &info.case, w(&format!("sender emitted {} in unacknowledged mode", kind_short(kk))));
            }
        }
    }
    if md != 1 || eof_ok != 1 {
        rep.violate("unack-sender-emits", format!("{} metadata={} eof={}", cfgkey, md.min(2), eof_ok.min(2)), &info.case, w(&format!("sender emitted {} Metadata and {} EOF(NoError) PDUs; expected one each", md, eof_ok)));
    }
    rep.count("c18_checked:sender-direction");
    // what reached the receiver before its first EOF
    let arr = d.arrivals(t.dst, id);
    let eof_arr = arr.iter().find(|a| matches!(&a.3.payload, PDUPayload::Directive(Operations::EoF(e)) if e.condition == Condition::NoError));
    let before: Vec<&PDU> = arr.iter().filter(|a| eof_arr.map(|e| a.0 < e.0).unwrap_or(true)).map(|a| a.3).collect();
    let got_md = before.iter().any(|p| kind_of(p) == Kind::Metadata);
    let cov = covered_bytes(before.iter().cloned(), t.content.len());
    let complete = got_md && cov.iter().all(|c| *c);
    // 5. a receiver that is missing data or metadata does not report a complete delivery.
    // Every report is judged against what the transaction incarnation that made it had been given: PDUs
    // arriving after a receive transaction has ended make the daemon start a new one from scratch.
    if eof_arr.is_some() {
        rep.count(if complete { "c18_eof_delivered:complete" } else { "c18_eof_delivered:incomplete" });
    }
    let spans = d.spans(id, TaskKind::Recv);
    let held_at = |li: usize, tu: u64| -> (bool, bool) {
        let start = spans.iter().filter(|s| s.start_us <= tu).map(|s| s.start_us).max().unwrap_or(0);
        let set: Vec<&PDU> = arr.iter().filter(|a| a.1 >= start && a.0 < li).map(|a| a.3).collect();
        let md = set.iter().any(|p| kind_of(p) == Kind::Metadata);
        let cov = covered_bytes(set.iter().cloned(), t.content.len());
        (md, cov.iter().all(|c| *c))
    };
    for (li, tu, f) in d.finished(t.dst, id) {
        if f.delivery_code == DeliveryCode::Complete {
            let (md, all) = held_at(li, tu);
            rep.count("c18_complete_reports_judged");
            if !(md && all) {
                rep.violate("unack-incomplete-reported-complete", format!("{} where=indication metadata_held={} data_held={} cond={:?}", cfgkey, md, all, f.report.condition), &info.case, w("receiver's Finished indication says Complete although the transaction did not hold the metadata and every byte"));
            }
        }
    }
    for e in d.emits(t.dst, id) {
        if let PDUPayload::Directive(Operations::Finished(f)) = &e.4.payload {
            if f.delivery_code == DeliveryCode::Complete {
                // the PDU is logged a few ms after it was built
                let (md, all) = held_at(e.0, e.1);
                if !(md && all) {
                    rep.violate("unack-incomplete-reported-complete", format!("{} where=pdu metadata_held={} data_held={} cond={:?}", cfgkey, md, all, f.condition), &info.case, w("receiver's Finished PDU says Complete although the transaction did not hold the metadata and every byte"));
                }
            }
        }
    }
    // whatever the outcome, a receiver that was given the metadata and the EOF tells its user how it ended
    if eof_arr.is_some() && got_md {
        if d.finished(t.dst, id).is_empty() {
            rep.violate("receiver-outcome-not-reported", format!("{} unwritable-destination={}", cfgkey, t.dst_name.contains('/')), &info.case, w("metadata and EOF were delivered, but the receiving user never got a Finished indication"));
        } else {
            rep.count("c18_checked:receiver-reports-an-outcome");
        }
    }
    let snd_end = d.ended(id, TaskKind::Send);
    let eof_emit = em.iter().find(|e| e.3 == Kind::Eof);
    if !k.closure {
        // 3. both sides end on EOF
        if let Some(e) = eof_emit {
            match snd_end {
                Some(t_end) if t_end <= e.1 + 5_000 => rep.count("c18_checked:sender-ends-on-eof"),
                other => rep.violate("unack-end-on-eof", format!("{} who=sender ended={}", cfgkey, other.is_some()), &info.case, w("without closure the sender must end when it has sent EOF")),
            }
        }
        if let Some(e) = eof_arr {
            let first = d.spans(id, TaskKind::Recv).first().cloned().cloned();
            match first.and_then(|s| s.end_us) {
                Some(t_end) if t_end <= e.1 + 5_000 => rep.count("c18_checked:receiver-ends-on-eof"),
                other => rep.violate("unack-end-on-eof", format!("{} who=receiver ended={}", cfgkey, other.is_some()), &info.case, w("without closure the receiver must end when EOF is delivered")),
            }
        }
    } else {
        // 4. closure: Finished with the true outcome; the sender waits for it, reports it, then ends
        let fin_pdus: Vec<_> = d.emits(t.dst, id).into_iter().filter(|e| e.3 == Kind::Finished).collect();
        if eof_arr.is_some() && got_md {
            if fin_pdus.is_empty() {
                rep.violate("closure-no-finished", cfgkey.clone(), &info.case, w("closure requested, EOF and metadata delivered, but the receiver never sent Finished"));
            } else if complete && t.dst_name.contains('/') {
                // the destination cannot be opened: the outcome is a filestore rejection, never a success
                if let PDUPayload::Directive(Operations::Finished(f)) = &fin_pdus[0].4.payload {
                    if f.condition == Condition::NoError && f.file_status == FileStatusCode::Retained {
                        rep.violate("closure-wrong-outcome", format!("{} unwritable destination reported as {:?}/{:?}/{:?}", cfgkey, f.condition, f.delivery_code, f.file_status), &info.case, w("the destination could not be opened, yet the Finished PDU reports a retained file without error"));
                    } else {
                        rep.count("c18_checked:finished-true-outcome(unwritable destination)");
                    }
                }
            } else if complete {
                if let PDUPayload::Directive(Operations::Finished(f)) = &fin_pdus[0].4.payload {
                    let want_status = if t.src_name.is_empty() { FileStatusCode::Unreported } else { FileStatusCode::Retained };
                    if !(f.condition == Condition::NoError && f.delivery_code == DeliveryCode::Complete && f.file_status == want_status) {
                        rep.violate("closure-wrong-outcome", format!("{} complete-delivery reported as {:?}/{:?}/{:?}", cfgkey, f.condition, f.delivery_code, f.file_status), &info.case, w("everything was delivered but the Finished PDU does not say so"));
                    } else {
                        rep.count("c18_checked:finished-true-outcome");
                    }
                }
            }
        }
        let fin_arr = d.arrivals(t.src, id).into_iter().find(|a| a.2 == Kind::Finished);
        let snd_faults = d.faults(t.src, id);
        let snd_aband = d.abandons(t.src, id);
        match fin_arr {
            Some(fa) => {
                // was the send task still there?
                let alive = d.spans(id, TaskKind::Send).iter().any(|s| s.start_us <= fa.1 && s.end_us.map(|e| e >= fa.1).unwrap_or(true));
                let limit_hit = snd_faults.iter().any(|f| f.1 <= fa.1) || snd_aband.iter().any(|f| f.1 <= fa.1);
                if !alive && !limit_hit {
                    rep.violate("closure-sender-did-not-wait", cfgkey.clone(), &info.case, w("closure requested, but the sender had ended (without any limit fault) before the receiver's Finished arrived"));
                } else if alive {
                    // it must report that outcome and then end
                    if let PDUPayload::Directive(Operations::Finished(fp)) = &fa.3.payload {
                        let inds = d.finished(t.src, id);
                        let m = inds.iter().find(|x| x.0 > fa.0 && x.2.report.condition == fp.condition && x.2.delivery_code == fp.delivery_code);
                        if m.is_none() {
                            rep.violate("closure-sender-report", format!("{} pdu={:?}/{:?}", cfgkey, fp.condition, fp.delivery_code), &info.case, w("the sender received Finished but did not report that outcome to its user"));
                        } else {
                            rep.count("c18_checked:sender-reports-outcome");
                        }
                    }
                    match snd_end {
                        Some(e) if e >= fa.1 => rep.count("c18_checked:sender-ends-after-finished"),
                        Some(_) => {}
                        None => rep.violate("closure-sender-never-ends", cfgkey.clone(), &info.case, w("the sender received Finished but its task never ended")),
                    }
                }
            }
            None => {
                // Finished never reached the sender: it must give up by its own limits (bounded by C03's B)
                if let Some(e) = eof_emit {
                    let b = bound_us(info, t.src);
                    match snd_end {
                        Some(te) if te <= e.1 + b => {
                            if te <= e.1 + 5_000 && snd_faults.is_empty() && snd_aband.is_empty() {
                                rep.violate("closure-sender-did-not-wait", format!("{} finished-never-arrived", cfgkey), &info.case, w("closure requested, but the sender ended at EOF without waiting for Finished"));
                            } else {
                                rep.count("c18_checked:sender-gives-up-by-limits");
                            }
                        }
                        _ => rep.violate("closure-sender-never-ends", format!("{} finished-never-arrived", cfgkey), &info.case, w("Finished never arrived and the sender did not end within the bound")),
                    }
                }
            }
        }
    }
    if d.faults_applied() > 0 {
        rep.nontrivial(case_sig(info, log));
        rep.sample(sample_json(log, info, 30));
    }
}

pub fn run_c18(tier: &str, seed: u64, replay: Option<&str>) -> (Meta, Report) {
    let thorough = tier == "thorough";
    let meta = Meta {
        property: "C18",
        level: "fault_enumeration",
        rule: "unacknowledged mode. sys = closure on/off x sizes {0,1,seg,seg+1,3seg,3seg+4} x {random, zero-runs, checksum-neutral} content x {no loss, duplicated EOF, every single loss and every double loss over the sender's PDUs, (closure) every loss of the 1st/2nd/3rd Finished alone and combined with every single forward loss, loss of the first two and of all Finished} (complete); rand = random knobs/sizes with up to 3 faults incl. dup/delay/corruption. distinct_nontrivial = distinct (config, size, event-order) signatures among runs where a fault fired.".into(),
        exhaustive: true,
        assumptions: vec!["'true outcome' = Complete iff metadata and every byte were delivered before the EOF; which error condition accompanies an incomplete delivery is not judged".into()],
        require: vec![("c18_checked:sender-direction".into(), 500), ("c18_eof_delivered:incomplete".into(), 100), ("c18_checked:finished-true-outcome".into(), 50), ("c18_checked:sender-reports-outcome".into(), 50), ("c18_checked:cancelled-sender-reports-finished".into(), 200), ("c18_checked:cancelled-receiver-stays-cancelled".into(), 200), ("c18_checked:finished-true-outcome(unwritable destination)".into(), 20)],
        extra: vec![],
    };
    if let Some(r) = replay {
        let (p, fam, idx, sd) = parse_case(r);
        if p != "C18" {
            return (meta, run_single(crate::p_xfer::any_case(r).expect("case"), judge_c18_kinds));
        }
        if fam == "cancel" {
            return (meta, run_single(c18_case(&fam, idx, sd).expect("case"), judge_c18_cancel));
        }
        return (meta, run_single(c18_case(&fam, idx, sd).expect("case"), judge_c18));
    }
    let n = c18_space().len();
    let mut rep = run_cases(n, "c18-sys", move |i| c18_case("sys", i, seed), judge_c18);
    rep.add("cases:sys", n as u64);
    let nr = if thorough { 800_000 } else { 3_000 };
    rep.merge(run_cases(nr, "c18-rand", move |i| c18_case("rand", i, seed), judge_c18));
    rep.add("cases:rand", nr as u64);
    let nc = if thorough { 200_000 } else { 1_500 };
    rep.merge(run_cases(nc, "c18-cancel", move |i| c18_case("cancel", i, seed), judge_c18_cancel));
    rep.add("cases:cancel", nc as u64);
    // the direction rule alone (an unacknowledged-mode receiver emits nothing but Finished, and that only with
    // closure) over other properties' workloads: primitives, prompts, late copies, cancels
    let nx = if thorough { 150_000 } else { 1_500 };
    rep.merge(run_cases(nx, "c18-x-c03primseq", move |i| crate::p_xfer::c03_case("primseq", i, seed), judge_c18_kinds));
    rep.merge(run_cases(nx, "c18-x-c03late", move |i| crate::p_xfer::c03_case("late", i, seed), judge_c18_kinds));
    rep.merge(run_cases(nx, "c18-x-c03prompt", move |i| crate::p_xfer::c03_case("prompt", i, seed), judge_c18_kinds));
    rep.merge(run_cases(nx, "c18-x-c10rand", move |i| crate::p_final::c10_case("rand", i, seed), judge_c18_kinds));
    rep.add("cases:cross(c03-primseq,c03-late,c03-prompt,c10-rand; unacknowledged runs judged)", 4 * nx as u64);
    (meta, rep)
}

/// Rule 1 of C18 alone, for executions of other workloads: in unacknowledged mode the receiving entity puts
/// nothing on the link but Finished PDUs, and those only when closure was requested.
pub fn judge_c18_kinds(info: &Info, log: &RunLog, rep: &mut Report) {
    let d = Dig::new(log);
    let t = &info.transfers[0];
    let k = &info.knobs[0];
    if t.mode != unack() {
        return;
    }
    let id = match d.id(0) {
        Some(i) => i,
        None => return,
    };
    rep.count("c18_cross_runs_judged(unacknowledged)");
    for e in d.emits(t.dst, id) {
        let bad = match e.3 {
            Kind::Finished => !k.closure,
            _ => true,
        };
        if bad {
            rep.violate("unack-receiver-emits", format!("closure={} kind={} (cross workload)", k.closure, kind_short(e.3)), &info.case, witness(log, info, &format!("receiver emitted {} in unacknowledged mode", kind_short(e.3))));
        }
    }
    if d.faults_applied() > 0 {
        rep.nontrivial(case_sig(info, log));
    }
}

// ===================================================================================== C19

/// (who 0=sender 1=receiver, trigger kind 0=after emit of e0 / 1=after arrival at e1, index, suspension ms, lost emission of e0->e1 or usize::MAX, mode idx 0 ack/1 unack+closure, nak idx)
type C19Spec = (usize, usize, usize, u64, usize, usize, usize);
const C19_SIZE: usize = 150; // 5 segments of 32

fn c19_space() -> Vec<C19Spec> {
    let mut v = vec![];
    let n0 = first_pass_len(C19_SIZE, 32) + 2;
    for mode in 0..2 {
        for nak in 0..4 {
            if mode == 1 && nak != 0 {
                continue;
            }
            for who in 0..2 {
                for trig in 0..2 {
                    for idx in 0..n0 {
                        for len in [0u64, 1500, 40_000] {
                            for lost in [usize::MAX, 2, 6] {
                                if lost != usize::MAX && (nak % 2 == 1 || len == 40_000) {
                                    continue;
                                }
                                v.push((who, trig, idx, len, lost, mode, nak));
                            }
                        }
                    }
                }
            }
        }
    }
    v
}

pub fn c19_case(fam: &str, idx: usize, seed: u64) -> Option<Case> {
    let case = format!("C19:{}:{}:{}", fam, idx, seed);
    match fam {
        "sys" => {
            let (who, trig, at, len, lost, mode, nak) = *c19_space().get(idx)?;
            let mut k = Knobs::base();
            k.seg = 32;
            k.nak = nak_procs()[nak];
            if mode == 1 {
                k.mode = unack();
                k.closure = true;
            }
            let mut rng = Rng::derive(seed, 1901, idx as u64);
            let c = content(&mut rng, C19_SIZE, idx as u64 % 5, 32, 0xC19);
            let mut sc = two_party(&case, seed ^ idx as u64, &k, c);
            // the peer of the suspended entity is patient (same timeouts, limit 40): it must not reach a limit during a long suspension
            let mut kp = k.clone();
            kp.limit = 40;
            sc.entities[1 - who].config = kp.config();
            let trigger = if trig == 0 { Trigger::AfterEmit(0, at) } else { Trigger::AfterArrive(1, at) };
            sc.scripts.push(Script { trig: trigger, delay_ms: 0, act: Act::Prim(who, PrimKind::Suspend, 0) });
            sc.scripts.push(Script { trig: Trigger::AfterInd(who, IndKind::Suspended, 0), delay_ms: len, act: Act::Prim(who, PrimKind::Resume, 0) });
            if lost != usize::MAX {
                sc.rules.push(Rule { from: 0, to: 1, m: Matcher::Nth(lost), a: Action::Drop });
            }
            sc.observe_ms = 3 * bound_ms(&kp.config(), 2000) + len;
            let desc = format!("{} size={} suspend e{} {:?} for {} ms lost={:?}", k.describe(), C19_SIZE, who, sc.scripts[0].trig, len, if lost == usize::MAX { None } else { Some(lost) });
            let mut cs = Case::from(sc, &k, desc, true);
            cs.info.knobs[1 - who] = kp;
            Some(cs)
        }
        "rand" => {
            let mut rng = Rng::derive(seed, 1902, idx as u64);
            let mut k = rand_knobs(&mut rng, true);
            k.seg = *rng.pick(&[16u16, 32, 64]);
            let seg = k.seg as usize;
            let size = rand_size(&mut rng, seg);
            let cl = rng.below(5);
            let c = content(&mut rng, size, cl, seg, 0xC19);
            let mut sc = two_party(&case, rng.next_u64(), &k, c);
            let who = rng.usize(2);
            let mut kp = k.clone();
            kp.limit = 40;
            sc.entities[1 - who].config = kp.config();
            let n0 = first_pass_len(size, seg) + 3;
            let trigger = match rng.below(3) {
                0 => Trigger::AfterEmit(0, rng.usize(n0)),
                1 => Trigger::AfterArrive(1, rng.usize(n0)),
                _ => Trigger::AfterArrive(0, rng.usize(3)),
            };
            let len = *rng.pick(&[0u64, 1, 700, 1500, 2999, 3001, 9000, 12_000, 31_000, 100_000]);
            sc.scripts.push(Script { trig: trigger, delay_ms: rng.below(3), act: Act::Prim(who, PrimKind::Suspend, 0) });
            sc.scripts.push(Script { trig: Trigger::AfterInd(who, IndKind::Suspended, 0), delay_ms: len, act: Act::Prim(who, PrimKind::Resume, 0) });
            if rng.bool() {
                sc.rules.push(Rule { from: 0, to: 1, m: Matcher::Nth(rng.usize(n0)), a: Action::Drop });
            }
            if rng.chance(1, 3) {
                sc.rules.push(Rule { from: 1, to: 0, m: Matcher::Nth(rng.usize(4)), a: Action::Drop });
            }
            // the sending user prompts while one of the two is suspended: a prompt is no licence to transmit
            let mut prompted = String::new();
            if len > 1 && rng.chance(1, 3) {
                let what = if rng.bool() { PrimKind::PromptNak } else { PrimKind::PromptKeepAlive };
                let dly = rng.below(len.min(5000));
                sc.scripts.push(Script { trig: Trigger::AfterInd(who, IndKind::Suspended, 0), delay_ms: dly, act: Act::Prim(0, what, 0) });
                prompted = format!(" {:?} {} ms into the suspension", what, dly);
            }
            sc.observe_ms = 3 * bound_ms(&kp.config(), 2000) + len;
            let desc = format!("{} size={} suspend e{} {:?} for {} ms{} faults=[{}]", k.describe(), size, who, sc.scripts[0].trig, len, prompted, rules_desc(&sc.rules));
            let mut cs = Case::from(sc, &k, desc, true);
            cs.info.knobs[1 - who] = kp;
            Some(cs)
        }
        _ => None,
    }
}

pub fn judge_c19(info: &Info, log: &RunLog, rep: &mut Report) {
    let d = Dig::new(log);
    count_observed(rep, log);
    let t = &info.transfers[0];
    let id = match d.id(0) {
        Some(i) => i,
        None => return,
    };
    let w = |head: &str| witness(log, info, head);
    let mut windows = 0;
    for ent in [t.src, t.dst] {
        let role = if ent == t.src { "sender" } else { "receiver" };
        let prims = d.prims(ent, 0);
        let sus_inds = d.inds(ent, id, IndKind::Suspended);
        if sus_inds.is_empty() {
            continue;
        }
        // the user suspended: window = [Suspended indication, Resume request]
        if !prims.iter().any(|p| p.2 == PrimKind::Suspend && p.3) {
            continue;
        }
        let w0 = sus_inds[0];
        let resume = prims.iter().find(|p| p.2 == PrimKind::Resume && p.3 && p.0 > w0.0);
        let (w1_idx, w1_t) = match resume {
            Some(r) => (r.0, r.1),
            None => (usize::MAX, u64::MAX),
        };
        windows += 1;
        rep.count(&format!("c19_windows:{}", role));
        let len_class = if w1_t == u64::MAX { "open" } else if w1_t - w0.1 == 0 { "zero" } else if w1_t - w0.1 < 3_000_000 { "short" } else { "long" };
        rep.count(&format!("c19_window_length:{}", len_class));
        // PDUs of the forbidden kinds emitted inside the window
        let inside: Vec<_> = d
            .emits(ent, id)
            .into_iter()
            .filter(|e| e.0 > w0.0 && e.0 < w1_idx && matches!(e.3, Kind::Metadata | Kind::FileData | Kind::Eof | Kind::Nak | Kind::Finished))
            .collect();
        rep.add("c19_pdus_seen_in_windows", inside.len() as u64);
        if inside.len() > 2 {
            let mut kinds: Vec<&str> = inside.iter().map(|e| kind_short(e.3)).collect();
            kinds.sort();
            kinds.dedup();
            // anything later than the instant of the suspension cannot be in-flight slack
            let late = inside.iter().filter(|e| e.1 > w0.1 + 10_000).count();
            rep.violate("transmits-while-suspended", format!("role={} cfg={} kinds={:?} later-than-10ms={}", role, info.knobs[ent].shape(), kinds, late > 0), &info.case, w(&format!("{} emitted {} PDUs of kinds {:?} between its Suspended indication and the Resume request (in-flight slack is 2)", role, inside.len(), kinds)));
        } else if inside.iter().any(|e| e.1 > w0.1 + 10_000) {
            let e = inside.iter().find(|e| e.1 > w0.1 + 10_000).unwrap();
            rep.violate("transmits-while-suspended", format!("role={} cfg={} kinds=[{:?}] later-than-10ms=true", role, info.knobs[ent].shape(), kind_short(e.3)), &info.case, w(&format!("{} emitted {} {:.3}s after it was suspended", role, kind_short(e.3), (e.1 - w0.1) as f64 / 1e6)));
        }
        // timer faults inside the window
        for (li, _, f) in d.faults(ent, id) {
            if li > w0.0 && li < w1_idx && matches!(f.condition, Condition::PositiveLimitReached | Condition::NakLimitReached | Condition::InactivityDetected | Condition::KeepAliveLimitReached | Condition::CheckLimitReached) {
                rep.violate("fault-while-suspended", format!("role={} cfg={} cond={:?}", role, info.knobs[ent].shape(), f.condition), &info.case, w(&format!("{} declared {:?} while suspended", role, f.condition)));
            }
        }
        rep.count("c19_checked:window");
    }
    // after resume the transfer completes as in C02 (acknowledged mode, faults within the hypothesis)
    if windows > 0 && info.hyp && t.mode == ack() {
        let resumed = [t.src, t.dst].iter().any(|e| d.prims(*e, 0).iter().any(|p| p.2 == PrimKind::Resume && p.3));
        if resumed {
            let rs = d.first_success(t.dst, id).is_some();
            let ss = d.first_success(t.src, id).is_some();
            let fin = d.dest_final(0).cloned().flatten();
            let ended = d.ended(id, TaskKind::Send).is_some() && d.ended(id, TaskKind::Recv).is_some();
            let mut missing = vec![];
            if !rs {
                missing.push("receiver-success");
            }
            if !ss {
                missing.push("sender-success");
            }
            if fin.as_deref() != Some(t.content.as_slice()) {
                missing.push("destination-equals-source");
            }
            if !ended {
                missing.push("both-ended");
            }
            if missing.is_empty() {
                rep.count("c19_checked:completed-after-resume");
            } else {
                let mut faults: Vec<String> = vec![];
                for e in [t.src, t.dst] {
                    for f in d.faults(e, id) {
                        faults.push(format!("e{}:{:?}", e, f.2.condition));
                    }
                }
                faults.dedup();
                let who = if d.prims(t.src, 0).iter().any(|p| p.2 == PrimKind::Suspend && p.3) { "sender" } else { "receiver" };
                rep.violate("not-completed-after-resume", format!("suspended={} cfg={} missing={:?} faults={:?} {}", who, info.knobs[0].shape(), missing, faults, history_shape(&d, info, if who == "sender" { t.src } else { t.dst }, 0)), &info.case, w(&format!("after resume the transfer did not complete: missing {:?}", missing)));
            }
        }
    }
    if windows > 0 {
        rep.nontrivial(case_sig(info, log));
        rep.sample(sample_json(log, info, 40));
    }
}

pub fn run_c19(tier: &str, seed: u64, replay: Option<&str>) -> (Meta, Report) {
    let thorough = tier == "thorough";
    let meta = Meta {
        property: "C19",
        level: "exploration",
        rule: "sys = Suspend at the sender or the receiver after EVERY emission index of the sender and EVERY arrival index at the receiver (5-segment file) x suspension lengths {0, 1.5 s, 40 s (> L*T of every timer of the suspended entity)} x {no loss, one lost data segment, lost EOF} x {ack with 4 NAK procedures, unack+closure}; Resume is issued that long after the Suspended indication (complete); rand = random knobs/sizes/trigger points/lengths/losses, in a third of the runs with a Prompt(NAK / keep-alive) of the sending user during the suspension. The peer of the suspended entity has the same timeouts but limit 40, so that only the suspended entity's limits are under test. distinct_nontrivial = distinct (config, size, event-order) signatures among runs with a suspended window.".into(),
        exhaustive: true,
        assumptions: vec!["window = [Suspended indication observed by the user, Resume request issued]; in-flight slack 2 PDUs at the instant of suspension (10 ms)".into(), "completion after resume is demanded in acknowledged mode with at most one loss (C02 hypothesis)".into()],
        require: vec![("c19_windows:sender".into(), 300), ("c19_windows:receiver".into(), 300), ("c19_checked:completed-after-resume".into(), 300), ("c19_window_length:long".into(), 100)],
        extra: vec![],
    };
    if let Some(r) = replay {
        let (_, fam, idx, sd) = parse_case(r);
        return (meta, run_single(c19_case(&fam, idx, sd).expect("case"), judge_c19));
    }
    let n = c19_space().len();
    let stride = if thorough { 1 } else { 2 };
    let off = (seed % stride as u64) as usize;
    let m = (n - off + stride - 1) / stride;
    let mut rep = run_cases(m, "c19-sys", move |i| c19_case("sys", off + i * stride, seed), judge_c19);
    rep.add("cases:sys", m as u64);
    let nr = if thorough { 800_000 } else { 3_000 };
    rep.merge(run_cases(nr, "c19-rand", move |i| c19_case("rand", i, seed), judge_c19));
    rep.add("cases:rand", nr as u64);
    let mut meta = meta;
    meta.exhaustive = thorough;
    meta.extra.push(("x_sys_space".into(), J::U(n as u64)));
    (meta, rep)
}

// ===================================================================================== C20

pub fn c20_case(fam: &str, idx: usize, seed: u64) -> Option<Case> {
    let case = format!("C20:{}:{}:{}", fam, idx, seed);
    let mut rng = Rng::derive(seed, 2001, idx as u64);
    match fam {
        "cancel" => {
            // a user cancel in the middle of the first pass, then figures reported by the cancelled sender:
            // Resumed (suspend/resume after the cancel) and Abandon (the EOF(cancel) is never acknowledged)
            let mut k = rand_knobs(&mut rng, true);
            k.seg = *rng.pick(&[16u16, 32, 64]);
            k.limit = *rng.pick(&[1u32, 2]);
            k.ta = 2;
            let seg = k.seg as usize;
            let nseg = 4 + rng.usize(12);
            let size = nseg * seg - rng.usize(seg);
            let cl = rng.below(5);
            let c = content(&mut rng, size, cl, seg, 0xC20);
            let mut sc = two_party(&case, rng.next_u64(), &k, c);
            let at = 1 + rng.usize(nseg - 1);
            sc.scripts.push(Script { trig: Trigger::AfterEmit(0, at), delay_ms: 0, act: Act::Prim(0, PrimKind::Cancel, 0) });
            if rng.bool() {
                sc.scripts.push(Script { trig: Trigger::AfterEmit(0, at), delay_ms: 2 + rng.below(3), act: Act::Prim(0, PrimKind::Suspend, 0) });
                sc.scripts.push(Script { trig: Trigger::AfterInd(0, IndKind::Suspended, 0), delay_ms: 1 + rng.below(500), act: Act::Prim(0, PrimKind::Resume, 0) });
            }
            // nothing comes back: the cancelled sender ends by its ACK limit
            sc.rules.push(Rule { from: 1, to: 0, m: Matcher::FromIdx(0), a: Action::Drop });
            sc.paced = true;
            sc.tx_ms = 1;
            let desc = format!("{} size={} [cancel] user cancel at the sender after emission #{} of {} then suspend/resume and abandon; scripts={:?}", k.describe(), size, at, nseg + 2, sc.scripts.iter().map(|s| format!("{:?}+{}ms:{:?}", s.trig, s.delay_ms, s.act)).collect::<Vec<_>>());
            Some(Case::from(sc, &k, desc, false))
        }
        "overlap" => {
            // a scripted (foreign) sender whose file-data PDUs are not aligned to any segment grid: they overlap,
            // repeat, start inside held data and span several held ranges; a keep-alive is solicited after each
            let mut k = Knobs::base();
            k.seg = 64;
            k.crc = rng.bool();
            let size = 40 + rng.usize(400);
            let cl = rng.below(5);
            let c = content(&mut rng, size, cl, 16, 0xC20);
            let mut sc = two_party(&case, rng.next_u64(), &k, c.clone());
            sc.entities[0].scripted = true;
            sc.latency_ms = 1;
            sc.paced = true;
            let h = crate::p_peer::ScriptPlayer::header(1, 2, k.crc);
            let mk = |pl: PDUPayload| crate::p_peer::mk_pdu(&h, Direction::ToReceiver, pl);
            let mut items: Vec<(u64, PDU)> = vec![];
            let mut t = 0u64;
            // a quarter of the foreign senders announce an unbounded file (size 0 in the Metadata PDU): what the
            // receiver holds is still what it holds
            let announced = if rng.chance(1, 4) { 0 } else { size as u64 };
            items.push((t, mk(PDUPayload::Directive(Operations::Metadata(MetadataPDU { closure_requested: false, checksum_type: k.checksum, file_size: announced, source_filename: "src0.bin".into(), destination_filename: "dst0.bin".into(), options: vec![] })))));
            let n = 3 + rng.usize(12);
            let mut shapes = vec![];
            for j in 0..n {
                // islands first, then bridges that span several of them
                let (a, l) = if j < n / 2 {
                    let a = rng.usize(size);
                    (a, 1 + rng.usize(24))
                } else {
                    let a = rng.usize(size);
                    (a, 1 + rng.usize(size / 2 + 1))
                };
                let l = l.min(size - a).max(1).min(size - a);
                if l == 0 {
                    continue;
                }
                t += 3;
                items.push((t, mk(PDUPayload::FileData(FileDataPDU::Unsegmented(UnsegmentedFileData { offset: a as u64, file_data: c[a..a + l].to_vec() })))));
                t += 3;
                items.push((t, mk(PDUPayload::Directive(Operations::Prompt(PromptPDU { nak_or_keep_alive: NakOrKeepAlive::KeepAlive })))));
                shapes.push((a, a + l));
            }
            sc.peers.push((0, Box::new(crate::p_peer::ScriptPlayer { items, header: h.clone() })));
            sc.observe_ms = 60_000;
            let desc = format!("{} size={} announced={} [overlap] scripted sender delivers {:?} with a keep-alive prompt after each", k.describe(), size, announced, shapes);
            let mut cs = Case::from(sc, &k, desc, false);
            cs.info.fixed_id = Some(cfdp_core::transaction::TransactionID(VariableID::from(1u16), VariableID::from(7u16)));
            Some(cs)
        }
        "prompt" | "susp" | "fault" => {
            let mut k = rand_knobs(&mut rng, true);
            k.seg = *rng.pick(&[16u16, 32, 64, 100]);
            if fam == "fault" {
                k.limit = *rng.pick(&[1u32, 2, 3]);
                k.ti = 6;
                k.ta = 2;
                k.tn = 2;
                if rng.bool() {
                    let act = rng.pick(&[FaultHandlerAction::Abandon, FaultHandlerAction::Cancel, FaultHandlerAction::Ignore, FaultHandlerAction::Suspend]).clone();
                    k.handlers = vec![(Condition::PositiveLimitReached, act.clone()), (Condition::NakLimitReached, act.clone()), (Condition::InactivityDetected, act)];
                }
            }
            let seg = k.seg as usize;
            let size = rand_size(&mut rng, seg);
            let cl = rng.below(5);
            let c = content(&mut rng, size, cl, seg, 0xC20);
            let mut sc = two_party(&case, rng.next_u64(), &k, c);
            let n0 = first_pass_len(size, seg) + 3;
            // some loss / duplication so that retransmissions and duplicates occur
            for _ in 0..rng.usize(3) {
                sc.rules.push(rand_fault(&mut rng, n0, 5, true));
            }
            match fam {
                "prompt" => {
                    for _ in 0..(1 + rng.usize(4)) {
                        let trig = if rng.bool() { Trigger::AfterEmit(0, rng.usize(n0)) } else { Trigger::AfterArrive(1, rng.usize(n0)) };
                        sc.scripts.push(Script { trig, delay_ms: rng.below(3), act: Act::Prim(0, PrimKind::PromptKeepAlive, 0) });
                    }
                }
                "susp" => {
                    let who = rng.usize(2);
                    let trig = if rng.bool() { Trigger::AfterEmit(0, rng.usize(n0)) } else { Trigger::AfterArrive(1, rng.usize(n0)) };
                    sc.scripts.push(Script { trig, delay_ms: 0, act: Act::Prim(who, PrimKind::Suspend, 0) });
                    sc.scripts.push(Script { trig: Trigger::AfterInd(who, IndKind::Suspended, 0), delay_ms: *rng.pick(&[0u64, 5, 500, 2500]), act: Act::Prim(who, PrimKind::Resume, 0) });
                    if rng.bool() {
                        sc.scripts.push(Script { trig: Trigger::AfterArrive(1, rng.usize(n0)), delay_ms: 1, act: Act::Prim(0, PrimKind::PromptKeepAlive, 0) });
                    }
                }
                _ => {
                    let from = rng.usize(2);
                    let cut = if from == 0 { rng.usize(n0) } else { rng.usize(4) };
                    sc.rules.push(Rule { from, to: 1 - from, m: Matcher::FromIdx(cut), a: Action::Drop });
                    if rng.chance(1, 3) {
                        sc.rules.push(Rule { from: 1 - from, to: from, m: Matcher::FromIdx(rng.usize(6)), a: Action::Drop });
                    }
                }
            }
            sc.paced = true;
            sc.tx_ms = 1;
            let desc = format!("{} size={} [{}] faults=[{}] scripts={:?}", k.describe(), size, fam, rules_desc(&sc.rules), sc.scripts.iter().map(|s| format!("{:?}+{}ms:{:?}", s.trig, s.delay_ms, s.act)).collect::<Vec<_>>());
            Some(Case::from(sc, &k, desc, false))
        }
        _ => None,
    }
}

pub fn judge_c20(info: &Info, log: &RunLog, rep: &mut Report) {
    let d = Dig::new(log);
    count_observed(rep, log);
    let t = &info.transfers[0];
    let id = match d.id(0).or(info.fixed_id) {
        Some(i) => i,
        None => return,
    };
    let size = t.content.len();
    let seg = info.knobs[0].seg as usize;
    let w = |head: &str| witness(log, info, head);
    let mut figures = 0;
    // ---- receiver: cumulative distinct bytes after each file-data arrival
    let arr: Vec<_> = d.arrivals(t.dst, id).into_iter().filter(|a| a.2 == Kind::FileData).collect();
    let mut cum: Vec<(usize, u64, u64)> = vec![]; // (log idx, time, distinct bytes after this arrival)
    {
        let mut cov = vec![false; size + 4 * seg + 8];
        let mut n = 0u64;
        for a in &arr {
            if let PDUPayload::FileData(FileDataPDU::Unsegmented(u)) = &a.3.payload {
                for i in 0..u.file_data.len() {
                    let p = u.offset as usize + i;
                    if p < cov.len() && !cov[p] {
                        cov[p] = true;
                        n += 1;
                    }
                }
            }
            cum.push((a.0, a.1, n));
        }
    }
    // candidates at a reporting point (log index li, time tu): the counts after every prefix that
    // ends between "strictly earlier instant" and "logged before li"
    let candidates = |li: usize, tu: u64| -> Vec<u64> {
        let mut lo = 0u64; // count after the last arrival at a strictly earlier instant
        let mut c = vec![];
        for x in &cum {
            if x.1 < tu {
                lo = x.2;
            }
        }
        c.push(lo);
        for x in &cum {
            if x.1 >= tu && x.1 == tu && x.0 < li {
                c.push(x.2);
            }
        }
        c
    };
    let mut last_rcv: Option<u64> = None;
    let mut rcv_points: Vec<(usize, u64, u64, String)> = vec![];
    // A keep-alive is computed when its prompt is handled and leaves when the link takes it (one PDU per
    // millisecond, behind whatever is queued): the i-th keep-alive answers the i-th keep-alive prompt and may
    // carry the figure of any instant between that prompt's arrival and its own emission.
    let ka_prompts: Vec<u64> = d.arrivals(t.dst, id).into_iter().filter(|a| matches!(&a.3.payload, PDUPayload::Directive(Operations::Prompt(p)) if p.nak_or_keep_alive == NakOrKeepAlive::KeepAlive)).map(|a| a.1).collect();
    let mut ka_since: std::collections::HashMap<usize, u64> = std::collections::HashMap::new();
    let mut n_ka = 0usize;
    for e in d.emits(t.dst, id) {
        if let PDUPayload::Directive(Operations::KeepAlive(ka)) = &e.4.payload {
            rcv_points.push((e.0, e.1, ka.progress, "KeepAlive".into()));
            if let Some(pt) = ka_prompts.get(n_ka) {
                if *pt <= e.1 {
                    ka_since.insert(e.0, *pt);
                }
            }
            n_ka += 1;
        }
    }
    for (i, r) in log.recs.iter().enumerate() {
        if let Ev::Ind { ent, ind } = &r.ev {
            if *ent == t.dst && ind_id(ind) == id {
                match ind {
                    Indication::Fault(f) => rcv_points.push((i, r.t_us, f.progress, "Fault".into())),
                    Indication::Abandon(f) => rcv_points.push((i, r.t_us, f.progress, "Abandon".into())),
                    Indication::Resumed(f) => rcv_points.push((i, r.t_us, f.progress, "Resumed".into())),
                    _ => {}
                }
            }
        }
    }
    rcv_points.sort_by_key(|x| x.0);
    // a re-spawned receive transaction (stray data after the end) starts from zero: judge only the first span
    let first_recv_end = d.spans(id, TaskKind::Recv).first().and_then(|s| s.end_us).unwrap_or(u64::MAX);
    // (a PDU logged after the first task's end event cannot be that task's, even at the same instant; an
    // indication of the end instant still is, because indications reach the user through a channel)
    let first_end_idx = log.recs.iter().position(|r| matches!(&r.ev, Ev::Task(cfdp_daemon::verif::TaskEvent::End(i, TaskKind::Recv)) if *i == id)).unwrap_or(usize::MAX);
    for (li, tu, prog, what) in &rcv_points {
        if *tu > first_recv_end || (what == "KeepAlive" && *li > first_end_idx) {
            continue;
        }
        figures += 1;
        rep.count(&format!("c20_receiver_figures:{}", what));
        let mut cand = candidates(*li, *tu);
        if let Some(since) = ka_since.get(li) {
            cand.extend(candidates(0, *since));
            cand.extend(cum.iter().filter(|x| x.1 >= *since && x.1 < *tu).map(|x| x.2));
        }
        if !cand.contains(prog) {
            let rel = if *prog > *cand.iter().max().unwrap() { "over" } else { "under" };
            rep.violate("receiver-progress-wrong", format!("where={} {} cfg={} dup-or-overlap={}", what, rel, info.knobs[0].shape(), arr.len() as u64 > cum.last().map(|c| (c.2 + seg as u64 - 1) / seg as u64).unwrap_or(0)), &info.case, w(&format!("receiver reported progress {} in {} but holds {:?} distinct bytes", prog, what, cand)));
        }
        if *prog > size as u64 {
            rep.violate("progress-exceeds-size", format!("role=receiver where={}", what), &info.case, w(&format!("receiver progress {} > file size {}", prog, size)));
        }
        if let Some(l) = last_rcv {
            if *prog < l {
                rep.violate("progress-decreases", format!("role=receiver where={}", what), &info.case, w(&format!("receiver progress went from {} to {}", l, prog)));
            }
        }
        last_rcv = Some(*prog);
    }
    // ---- sender: highest offset transmitted so far
    let fd: Vec<(usize, u64, u64)> = d
        .emits(t.src, id)
        .into_iter()
        .filter_map(|e| match &e.4.payload {
            PDUPayload::FileData(FileDataPDU::Unsegmented(u)) => Some((e.0, e.1, u.offset + u.file_data.len() as u64)),
            _ => None,
        })
        .collect();
    let mut last_snd: Option<u64> = None;
    for (i, r) in log.recs.iter().enumerate() {
        if let Ev::Ind { ent, ind } = &r.ev {
            if *ent == t.src && ind_id(ind) == id {
                let (prog, what) = match ind {
                    Indication::Fault(f) => (f.progress, "Fault"),
                    Indication::Abandon(f) => (f.progress, "Abandon"),
                    Indication::Resumed(f) => (f.progress, "Resumed"),
                    _ => continue,
                };
                figures += 1;
                rep.count(&format!("c20_sender_figures:{}", what));
                // Indications reach the user through a spawned task and may lag the emissions of the
                // same instant. Lower bound: everything handed to the link at a strictly earlier
                // instant has been counted. Upper bound: everything logged before the indication,
                // plus up to two tiles already read but not yet handed to the link.
                let lo = fd.iter().filter(|x| x.1 < r.t_us).map(|x| x.2).max().unwrap_or(0);
                let m = fd.iter().filter(|x| x.0 < i).map(|x| x.2).max().unwrap_or(0);
                let hi = (m + 2 * seg as u64).min(size as u64);
                let aligned = prog % seg as u64 == 0 || prog == size as u64;
                if !(prog >= lo && prog <= hi && aligned) {
                    let rel = if prog > hi { "over" } else if prog < lo { "under" } else { "off-tile" };
                    rep.violate("sender-progress-wrong", format!("where={} {} cfg={}", what, rel, info.knobs[0].shape()), &info.case, w(&format!("sender reported progress {} in {} but the highest offset transmitted lies in [{}, {}] (tile {})", prog, what, lo, hi, seg)));
                }
                if prog > size as u64 {
                    rep.violate("progress-exceeds-size", format!("role=sender where={}", what), &info.case, w(&format!("sender progress {} > file size {}", prog, size)));
                }
                if let Some(l) = last_snd {
                    if prog < l {
                        rep.violate("progress-decreases", format!("role=sender where={}", what), &info.case, w(&format!("sender progress went from {} to {}", l, prog)));
                    }
                }
                last_snd = Some(prog);
            }
        }
    }
    if figures > 0 {
        rep.nontrivial(case_sig(info, log));
        rep.sample(sample_json(log, info, 30));
    }
}

pub fn run_c20(tier: &str, seed: u64, replay: Option<&str>) -> (Meta, Report) {
    let thorough = tier == "thorough";
    let meta = Meta {
        property: "C20",
        level: "exploration",
        rule: "seeded scenarios in three families, all paced, acknowledged mode, random knobs / sizes around segment boundaries / up to 2 random faults (loss, duplication, delay => retransmissions and duplicates): prompt = 1-4 Prompt(KeepAlive) requests at random emission/arrival indices; susp = Suspend+Resume at a random index at either entity (Resumed indication carries progress) plus optional prompt; fault = link cut at a random index with small limits and random fault handlers (Fault / Abandon indications carry progress); cancel = user cancel at the sender in the middle of the first pass with the reverse link dark, optionally followed by suspend/resume (Resumed and Abandon figures of a sender that has not transmitted the whole file); overlap = a scripted foreign sender whose file-data PDUs are not aligned to any grid (islands, then bridges spanning several held ranges, repeats) with a keep-alive solicited after each. distinct_nontrivial = distinct (config, size, event-order) signatures among runs in which at least one progress figure was reported and checked.".into(),
        exhaustive: false,
        assumptions: vec!["receiver figure must equal the number of distinct file bytes delivered at one of the points of the same virtual instant; sender figure must be a tile boundary between the highest offset handed to the link at earlier instants and the highest offset logged before the indication plus two tiles already read".into()],
        require: vec![("c20_receiver_figures:KeepAlive".into(), 300), ("c20_receiver_figures:Fault".into(), 100), ("c20_receiver_figures:Resumed".into(), 100), ("c20_sender_figures:Fault".into(), 100), ("c20_sender_figures:Resumed".into(), 100), ("c20_sender_figures:Abandon".into(), 100)],
        extra: vec![],
    };
    if let Some(r) = replay {
        let (p, fam, idx, sd) = parse_case(r);
        if p != "C20" {
            return (meta, run_single(crate::p_xfer::any_case(r).expect("case"), judge_c20));
        }
        return (meta, run_single(c20_case(&fam, idx, sd).expect("case"), judge_c20));
    }
    let n = if thorough { 400_000 } else { 3_000 };
    let mut rep = Report::new();
    for fam in ["prompt", "susp", "fault", "cancel", "overlap"] {
        rep.merge(run_cases(n, "c20", move |i| c20_case(fam, i, seed), judge_c20));
        rep.add(&format!("cases:{}", fam), n as u64);
    }
    // the same oracle over other properties' workloads (figures in Fault / Resumed / Abandon indications)
    let nx = if thorough { 100_000 } else { 1_000 };
    rep.merge(run_cases(nx, "c20-x-c19rand", move |i| c19_case("rand", i, seed), judge_c20));
    rep.merge(run_cases(nx, "c20-x-c03primseq", move |i| crate::p_xfer::c03_case("primseq", i, seed), judge_c20));
    rep.merge(run_cases(nx, "c20-x-c03late", move |i| crate::p_xfer::c03_case("late", i, seed), judge_c20));
    rep.merge(run_cases(nx, "c20-x-c02adaptive", move |i| crate::p_xfer::c02_case("adaptive", i, seed), judge_c20));
    rep.add("cases:cross(c19-rand,c03-primseq,c03-late,c02-adaptive)", 4 * nx as u64);
    (meta, rep)
}
