//! C07 (sender transmits exactly the source file) and C08 (receiver NAKs are well-formed and
//! exact): one real daemon against a scripted, possibly non-conforming peer played by the harness.
use crate::e1::*;
use crate::p_proto::parse_case;
use crate::report::{Meta, Report};
use crate::sim::*;
use crate::simgen::*;
use crate::util::{Rng, J};
use camino::Utf8PathBuf;
use cfdp_core::daemon::NakProcedure;
use cfdp_core::filestore::ChecksumType;
use cfdp_core::pdu::*;
use cfdp_daemon::verif::TaskKind;

fn ack() -> TransmissionMode {
    TransmissionMode::Acknowledged
}

pub fn ref_checksum(data: &[u8]) -> u32 {
    let mut sum: u32 = 0;
    for (i, b) in data.iter().enumerate() {
        sum = sum.wrapping_add((*b as u32) << (8 * (3 - (i % 4))));
    }
    sum
}

pub fn mk_pdu(template: &PDUHeader, direction: Direction, payload: PDUPayload) -> PDU {
    let pdu_type = match &payload {
        PDUPayload::FileData(_) => PDUType::FileData,
        PDUPayload::Directive(_) => PDUType::FileDirective,
    };
    let len = payload.encoded_len(template.large_file_flag);
    PDU { header: PDUHeader { direction, pdu_type, pdu_data_field_length: len, segmentation_control: SegmentationControl::NotPreserved, ..template.clone() }, payload }
}

// ===================================================================================== C07

#[derive(Clone, Debug)]
pub struct NakInject {
    /// fire when the peer has received this many PDUs (0-based count), or (if None) `after_eof_ms` after the EOF
    pub after_arrival: Option<usize>,
    pub after_eof_ms: u64,
    pub requests: Vec<(u64, u64)>,
}

/// The harness playing a (possibly non-conforming) receiving entity.
pub struct ScriptedReceiver {
    pub me: Ent,
    pub injects: Vec<NakInject>,
    pub ack_eof: bool,
    /// send Finished this long after the last scripted NAK / the EOF, whichever is later
    pub finish_after_ms: u64,
    /// after the EOF: this many Keep Alive PDUs, this many ms apart (the only sign of life until Finished)
    pub keepalives: Option<(u64, u32)>,
    arrivals: usize,
    header: Option<PDUHeader>,
    eof_seen: bool,
    fired: Vec<bool>,
    finished_sent: bool,
}
impl ScriptedReceiver {
    pub fn new(me: Ent, injects: Vec<NakInject>, ack_eof: bool, finish_after_ms: u64) -> Self {
        let n = injects.len();
        ScriptedReceiver { me, injects, ack_eof, finish_after_ms, keepalives: None, arrivals: 0, header: None, eof_seen: false, fired: vec![false; n], finished_sent: false }
    }
    fn nak(&self, reqs: &[(u64, u64)]) -> Option<PDU> {
        let h = self.header.as_ref()?;
        let lo = reqs.iter().map(|r| r.0.min(r.1)).min().unwrap_or(0);
        let hi = reqs.iter().map(|r| r.0.max(r.1)).max().unwrap_or(0);
        Some(mk_pdu(h, Direction::ToSender, PDUPayload::Directive(Operations::Nak(NegativeAcknowledgmentPDU { start_of_scope: lo, end_of_scope: hi, segment_requests: reqs.iter().map(|r| SegmentRequestForm { start_offset: r.0, end_offset: r.1 }).collect() }))))
    }
}
impl Peer for ScriptedReceiver {
    fn start(&mut self, _ctx: &mut PeerCtx) {}
    fn on_pdu(&mut self, from: Ent, pdu: &PDU, ctx: &mut PeerCtx) {
        if self.header.is_none() {
            self.header = Some(pdu.header.clone());
        }
        let k = self.arrivals;
        self.arrivals += 1;
        for i in 0..self.injects.len() {
            if !self.fired[i] && self.injects[i].after_arrival == Some(k) {
                self.fired[i] = true;
                if let Some(p) = self.nak(&self.injects[i].requests.clone()) {
                    ctx.send(from, p, 0);
                }
            }
        }
        if let PDUPayload::Directive(Operations::EoF(e)) = &pdu.payload {
            if self.ack_eof {
                let h = self.header.clone().unwrap();
                ctx.send(from, mk_pdu(&h, Direction::ToSender, PDUPayload::Directive(Operations::Ack(PositiveAcknowledgePDU { directive: PDUDirective::EoF, directive_subtype_code: ACKSubDirective::Other, condition: e.condition, transaction_status: TransactionStatus::Active }))), 0);
            }
            if !self.eof_seen {
                self.eof_seen = true;
                let mut last = 0;
                for (i, inj) in self.injects.iter().enumerate() {
                    if inj.after_arrival.is_none() {
                        ctx.timer(100 + i as u32, inj.after_eof_ms);
                        last = last.max(inj.after_eof_ms);
                    }
                }
                if let Some((gap, n)) = self.keepalives {
                    for j in 1..=n {
                        ctx.timer(50, gap * j as u64);
                    }
                    last = last.max(gap * n as u64);
                }
                ctx.timer(1, last + self.finish_after_ms);
            }
        }
    }
    fn on_timer(&mut self, tag: u32, ctx: &mut PeerCtx) {
        if tag >= 100 {
            let i = (tag - 100) as usize;
            if !self.fired[i] {
                self.fired[i] = true;
                if let Some(p) = self.nak(&self.injects[i].requests.clone()) {
                    ctx.send(0, p, 0);
                }
            }
        } else if tag == 50 {
            if let Some(h) = self.header.clone() {
                ctx.send(0, mk_pdu(&h, Direction::ToSender, PDUPayload::Directive(Operations::KeepAlive(KeepAlivePDU { progress: 0 }))), 0);
            }
        } else if tag == 1 && !self.finished_sent {
            self.finished_sent = true;
            if let Some(h) = self.header.clone() {
                ctx.send(0, mk_pdu(&h, Direction::ToSender, PDUPayload::Directive(Operations::Finished(Finished { condition: Condition::NoError, delivery_code: DeliveryCode::Complete, file_status: FileStatusCode::Retained, filestore_response: vec![], fault_location: None }))), 0);
            }
        }
    }
}

fn nak_shape(rng: &mut Rng, size: u64, seg: u64, kind: u64) -> (Vec<(u64, u64)>, &'static str) {
    let r = |rng: &mut Rng| rng.below(size.max(1));
    match kind % 12 {
        0 => {
            let a = r(rng);
            let b = (a + 1 + rng.below(3 * seg)).min(size.max(a + 1));
            (vec![(a, b), (a + (b - a) / 2, (b + seg).min(size.max(1)))], "overlapping")
        }
        1 => {
            let mut v: Vec<(u64, u64)> = (0..3).map(|_| { let a = r(rng); (a, (a + 1 + rng.below(seg)).min(size.max(a + 1))) }).collect();
            v.sort();
            v.reverse();
            (v, "unsorted")
        }
        2 => (vec![], "empty-list"),
        3 => {
            let a = r(rng);
            let b = (a + 1 + rng.below(seg)).min(size.max(a + 1));
            (vec![(a, b), (a, b), (a, b)], "duplicates")
        }
        4 => {
            let a = r(rng);
            (vec![(a + 5, a)], "start>end")
        }
        5 => {
            let a = 1 + r(rng);
            (vec![(a, a)], "(x,x)")
        }
        6 => (vec![(size.saturating_sub(5), size + 2 * seg + 3)], "beyond-eof"),
        7 => (vec![(size, size + seg)], "entirely-beyond-eof"),
        8 => (vec![(0, (5 * seg + 3).min(size.max(1)))], "longer-than-a-segment"),
        9 => (vec![(0, size.max(1))], "whole-file"),
        10 => (vec![(0, 0)], "metadata"),
        _ => {
            let n = 1 + rng.usize(5);
            let mut v = vec![];
            for _ in 0..n {
                let a = r(rng);
                let b = a + rng.below(2 * seg + 2);
                v.push(if rng.chance(1, 6) { (b, a) } else { (a, b) });
            }
            if rng.bool() {
                v.push((0, 0));
            }
            (v, "mixture")
        }
    }
}

pub fn c07_case(fam: &str, idx: usize, seed: u64) -> Option<Case> {
    let case = format!("C07:{}:{}:{}", fam, idx, seed);
    let mut rng = Rng::derive(seed, 701, idx as u64);
    match fam {
        "scripted" => {
            let mut k = Knobs::base();
            k.seg = *rng.pick(&[16u16, 32, 64, 100]);
            k.crc = rng.bool();
            k.checksum = if rng.chance(1, 5) { ChecksumType::Null } else { ChecksumType::Modular };
            k.closure = rng.bool();
            k.ti = 30; // the sender must not run into its own inactivity limit while the script plays
            let seg = k.seg as usize;
            let nseg = 1 + rng.usize(12);
            let size = match rng.below(6) {
                0 => nseg * seg,
                1 => nseg * seg + 1,
                2 => (nseg * seg).saturating_sub(1).max(1),
                3 => rng.usize(12 * seg) + 1,
                4 => 1 + rng.usize(seg),
                _ => nseg * seg + rng.usize(seg),
            };
            let cl = rng.below(5);
            let c = content(&mut rng, size, cl, seg, 0xC07);
            let mut sc = two_party(&case, rng.next_u64(), &k, c);
            sc.entities[1].scripted = true;
            let n0 = first_pass_len(size, seg);
            let ninj = 1 + rng.usize(3);
            let mut injects = vec![];
            let mut names = vec![];
            for j in 0..ninj {
                let shape_kind = if idx % 3 == 0 { (idx / 3 + j) as u64 } else { rng.below(12) };
                let (requests, name) = nak_shape(&mut rng, size as u64, seg as u64, shape_kind);
                let after_arrival = if rng.chance(2, 3) { Some(rng.usize(n0)) } else { None };
                injects.push(NakInject { after_arrival, after_eof_ms: rng.below(2500), requests });
                names.push(name);
            }
            let ack_eof = rng.chance(4, 5);
            sc.latency_ms = *rng.pick(&[0u64, 1, 5]);
            sc.tx_ms = 1;
            let desc = format!("{} size={} scripted receiver: ack_eof={} NAKs {:?} {:?} latency={}ms", k.describe(), size, ack_eof, names, injects.iter().map(|i| format!("{:?}@{}", i.requests, i.after_arrival.map(|a| format!("arrival#{}", a)).unwrap_or_else(|| format!("eof+{}ms", i.after_eof_ms)))).collect::<Vec<_>>(), sc.latency_ms);
            // the sending user suspends and resumes in the middle of the first pass (the position in the
            // source file must survive the suspension)
            let mut desc = desc;
            if rng.chance(1, 4) && n0 > 2 {
                let at = 1 + rng.usize(n0 - 2);
                let pause = *rng.pick(&[3u64, 40, 700, 1500]);
                sc.scripts.push(Script { trig: Trigger::AfterEmit(0, at), delay_ms: 0, act: Act::Prim(0, PrimKind::Suspend, 0) });
                sc.scripts.push(Script { trig: Trigger::AfterEmit(0, at), delay_ms: pause, act: Act::Prim(0, PrimKind::Resume, 0) });
                desc.push_str(&format!(" suspend after emission #{} for {} ms", at, pause));
            }
            sc.peers.push((1, Box::new(ScriptedReceiver::new(1, injects, ack_eof, 4000))));
            sc.observe_ms = 200_000;
            Some(Case::from(sc, &k, desc, false))
        }
        "huge" => {
            // sources around 2^32 bytes (sparse): the size fields of Metadata / EOF and the large-file flag of every
            // PDU. The peer is never heard and the user cancels after a few segments.
            let lens = [u32::MAX as u64 - 1, u32::MAX as u64, u32::MAX as u64 + 1, u32::MAX as u64 + 2, (1u64 << 33) + 5];
            let len = lens[idx % lens.len()];
            let mut k = Knobs::base();
            k.seg = *rng.pick(&[64u16, 1000]);
            k.checksum = ChecksumType::Null;
            k.crc = rng.bool();
            k.limit = 1;
            k.ta = 1;
            let mut sc = two_party(&case, rng.next_u64(), &k, vec![]);
            sc.transfers[0].src_name = "huge.bin".into();
            sc.plant_sparse.push((0, "huge.bin".into(), len));
            sc.rules.push(Rule { from: 0, to: 1, m: Matcher::FromIdx(0), a: Action::Drop });
            sc.scripts.push(Script { trig: Trigger::AfterEmit(0, 2 + rng.usize(4)), delay_ms: 0, act: Act::Prim(0, PrimKind::Cancel, 0) });
            sc.observe_ms = 30_000;
            let desc = format!("{} sparse source of {} bytes (2^32{:+}), link dark, cancel after a few segments", k.describe(), len, len as i128 - (1i128 << 32));
            let mut cs = Case::from(sc, &k, desc, false);
            cs.info.desc.push_str(&format!(" len={}", len));
            Some(cs)
        }
        _ => None,
    }
}

/// Oracle for the `huge` family: size fields and large-file flag (the source is all zeros, 2^32 +- a few bytes).
pub fn judge_c07_huge(info: &Info, log: &RunLog, rep: &mut Report) {
    let d = Dig::new(log);
    let id = match d.id(0) {
        Some(i) => i,
        None => return,
    };
    let len: u64 = info.desc.rsplit("len=").next().and_then(|x| x.trim().parse().ok()).unwrap_or(0);
    let want_flag = if len > u32::MAX as u64 { FileSizeFlag::Large } else { FileSizeFlag::Small };
    let w = |head: &str| witness(log, info, head);
    let mut n = 0;
    for e in d.emits(0, id) {
        n += 1;
        let h = &e.4.header;
        if h.large_file_flag != want_flag {
            rep.violate("pdu-header-wrong", format!("kind={} fields=[\"file-size-flag\"] size-minus-2^32={}", kind_short(e.3), len as i128 - (1i128 << 32)), &info.case, w(&format!("source of {} bytes: emission #{} ({}) carries the {:?} file-size flag", len, e.2, kind_short(e.3), h.large_file_flag)));
            break;
        }
        match &e.4.payload {
            PDUPayload::Directive(Operations::Metadata(m)) if m.file_size != len => {
                rep.violate("metadata-wrong", format!("size-ok=false huge size-minus-2^32={}", len as i128 - (1i128 << 32)), &info.case, w(&format!("Metadata states file size {} for a source of {} bytes", m.file_size, len)));
            }
            PDUPayload::Directive(Operations::EoF(x)) if x.file_size != len => {
                rep.violate("eof-wrong", format!("size-ok=false huge size-minus-2^32={}", len as i128 - (1i128 << 32)), &info.case, w(&format!("EOF states file size {} for a source of {} bytes", x.file_size, len)));
            }
            PDUPayload::FileData(FileDataPDU::Unsegmented(u)) => {
                if u.offset + u.file_data.len() as u64 > len || u.file_data.iter().any(|b| *b != 0) {
                    rep.violate("data-bytes-wrong", "huge".into(), &info.case, w("file data beyond the source or not the source's bytes"));
                }
            }
            _ => {}
        }
    }
    if n > 0 {
        rep.count("c07_huge_runs_judged");
        rep.nontrivial(case_sig(info, log));
    }
}

/// Oracle over everything the sending entity of transfer 0 handed to the link.
pub fn judge_c07(info: &Info, log: &RunLog, rep: &mut Report) {
    let d = Dig::new(log);
    count_observed(rep, log);
    let t = &info.transfers[0];
    let id = match d.id(0) {
        Some(i) => i,
        None => return,
    };
    if t.src_name.is_empty() {
        return;
    }
    let k = &info.knobs[t.src];
    let seg = k.seg as usize;
    let size = t.content.len();
    let w = |head: &str| witness(log, info, head);
    let scripted = info.scripted[t.dst];
    let em = d.emits(t.src, id);
    if log.recs.iter().any(|r| matches!(&r.ev, Ev::Ind { ent, ind: cfdp_core::daemon::Indication::Resumed(_) } if *ent == t.src)) {
        rep.count("c07_runs_with_suspend_resume_at_sender");
    }
    let want_sum = if k.checksum == ChecksumType::Modular { ref_checksum(&t.content) } else { 0 };
    let src_id = VariableID::from(if t.src == 0 { 1u16 } else { 2u16 });
    let dst_id = VariableID::from(if t.dst == 0 { 1u16 } else { 2u16 });
    // per byte: requests delivered to the sender minus retransmissions made
    let mut allowance = vec![0i32; size];
    let mut md_allow = 0i32;
    let mut cursor = 0usize;
    let mut first_pass_done = size == 0;
    let arr = d.arrivals(t.src, id);
    let mut ai = 0usize;
    let mut fd_checked = 0u64;
    let mut retrans = 0u64;
    let mut md_first = false;
    for e in &em {
        // account the NAKs delivered before this emission
        while ai < arr.len() && arr[ai].0 < e.0 {
            if let PDUPayload::Directive(Operations::Nak(n)) = &arr[ai].3.payload {
                for r in &n.segment_requests {
                    if r.start_offset == 0 && r.end_offset == 0 {
                        md_allow += 1;
                    }
                    let a = (r.start_offset as usize).min(size);
                    let b = (r.end_offset as usize).min(size);
                    for x in allowance.iter_mut().take(b).skip(a) {
                        *x += 1;
                    }
                }
            }
            ai += 1;
        }
        let p = e.4;
        // ---- header of every PDU
        let h = &p.header;
        let mut bad = vec![];
        if h.source_entity_id != src_id {
            bad.push("source-id");
        }
        if h.destination_entity_id != dst_id {
            bad.push("destination-id");
        }
        if h.transaction_sequence_number != id.1 {
            bad.push("sequence-number");
        }
        if h.transmission_mode != t.mode {
            bad.push("mode");
        }
        if h.direction != Direction::ToReceiver {
            bad.push("direction");
        }
        if (h.crc_flag == CRCFlag::Present) != k.crc {
            bad.push("crc-flag");
        }
        if h.large_file_flag != FileSizeFlag::Small {
            bad.push("file-size-flag");
        }
        if h.pdu_data_field_length != p.payload.encoded_len(h.large_file_flag) {
            bad.push("length-field");
        }
        if !bad.is_empty() {
            rep.violate("pdu-header-wrong", format!("kind={} fields={:?}", kind_short(e.3), bad), &info.case, w(&format!("emission #{} ({}) has wrong header fields {:?}: {:?}", e.2, kind_short(e.3), bad, h)));
        }
        rep.count("c07_headers_checked");
        match &p.payload {
            PDUPayload::FileData(FileDataPDU::Unsegmented(u)) => {
                let off = u.offset as usize;
                let len = u.file_data.len();
                fd_checked += 1;
                if len == 0 {
                    rep.count("c07_zero_length_data_pdus");
                    continue;
                }
                if len > seg {
                    rep.violate("data-longer-than-segment", format!("seg={} excess={}", seg, (len - seg).min(9)), &info.case, w(&format!("file data PDU of {} bytes, segment size {}", len, seg)));
                }
                if off + len > size {
                    rep.violate("data-beyond-eof", format!("past-by={}", (off + len - size).min(9)), &info.case, w(&format!("file data off={} len={} reaches beyond the file size {}", off, len, size)));
                    continue;
                }
                if u.file_data[..] != t.content[off..off + len] {
                    rep.violate("data-bytes-wrong", format!("first-pass-done={} aligned={}", first_pass_done, off % seg == 0), &info.case, w(&format!("file data off={} len={} does not carry the source file's bytes at that offset", off, len)));
                }
                let want = seg.min(size - cursor);
                if !first_pass_done && off == cursor && len == want {
                    cursor += len;
                    if cursor == size {
                        first_pass_done = true;
                    }
                } else {
                    // a retransmission: every byte must have been asked for
                    retrans += 1;
                    let mut unsolicited = 0;
                    for x in allowance.iter_mut().skip(off).take(len) {
                        *x -= 1;
                        if *x < 0 {
                            unsolicited += 1;
                            *x = 0;
                        }
                    }
                    if unsolicited > 0 {
                        let pos = if !first_pass_done && off > cursor { "ahead-of-cursor" } else if !first_pass_done { "behind-cursor" } else { "after-first-pass" };
                        rep.violate("unsolicited-data", format!("{} whole-pdu={}", pos, unsolicited == len), &info.case, w(&format!("file data off={} len={} is neither the next tile of the first pass (cursor {}) nor covered by a pending NAK ({} bytes not asked for)", off, len, cursor, unsolicited)));
                    }
                }
            }
            PDUPayload::FileData(_) => {}
            PDUPayload::Directive(Operations::Metadata(m)) => {
                let ok = m.file_size == size as u64 && m.source_filename == Utf8PathBuf::from(t.src_name.clone()) && m.destination_filename == Utf8PathBuf::from(t.dst_name.clone()) && m.checksum_type == k.checksum && m.closure_requested == k.closure;
                let reqs: Vec<&FileStoreRequest> = m.options.iter().filter_map(|o| match o { MetadataTLV::FileStoreRequest(r) => Some(r), _ => None }).collect();
                let reqs_ok = reqs.len() == t.requests.len() && reqs.iter().zip(t.requests.iter()).all(|(a, b)| **a == *b);
                rep.count("c07_metadata_checked");
                if !ok || !reqs_ok {
                    rep.violate("metadata-wrong", format!("size-ok={} names-ok={} requests-ok={}", m.file_size == size as u64, m.source_filename.as_str() == t.src_name && m.destination_filename.as_str() == t.dst_name, reqs_ok), &info.case, w(&format!("Metadata PDU does not state the request's names/size/checksum type/closure/requests: {:?}", m)));
                }
                if !md_first {
                    md_first = true;
                    if e.2 != em[0].2 {
                        rep.violate("metadata-not-first", "".into(), &info.case, w("the first PDU of the transaction is not the Metadata PDU"));
                    }
                } else {
                    md_allow -= 1;
                    if md_allow < 0 {
                        md_allow = 0;
                        rep.violate("unsolicited-metadata", "".into(), &info.case, w("Metadata retransmitted without a (0,0) request"));
                    }
                }
            }
            PDUPayload::Directive(Operations::EoF(eof)) => {
                rep.count("c07_eof_checked");
                if eof.file_size != size as u64 || eof.checksum != want_sum {
                    rep.violate("eof-wrong", format!("size-ok={} checksum-ok={} type={:?}", eof.file_size == size as u64, eof.checksum == want_sum, k.checksum), &info.case, w(&format!("EOF states size {} checksum {:#x}; the source file has size {} checksum {:#x}", eof.file_size, eof.checksum, size, want_sum)));
                }
                if eof.condition == Condition::NoError && !first_pass_done {
                    rep.violate("eof-before-file-tiled", format!("cursor-at-start={}", cursor == 0), &info.case, w(&format!("EOF(NoError) emitted when the first pass had tiled only [0,{}) of {}", cursor, size)));
                }
            }
            _ => {}
        }
    }
    rep.add("c07_file_data_pdus_checked", fd_checked);
    rep.add("c07_retransmissions_checked", retrans);
    // ---- obligation: what was asked for is answered (scripted peer: nothing cuts the exchange short)
    if scripted {
        let cancelled = em.iter().any(|e| matches!(&e.4.payload, PDUPayload::Directive(Operations::EoF(x)) if x.condition != Condition::NoError));
        let end = d.ended(id, TaskKind::Send).unwrap_or(u64::MAX);
        for a in &arr {
            if let PDUPayload::Directive(Operations::Nak(n)) = &a.3.payload {
                // the Finished of the script arrives >= 4 s later; a request delivered within 1 s of the end is not judged
                if cancelled || a.1 + 1_000_000 > end {
                    continue;
                }
                rep.count("c07_naks_with_obligation");
                let mut need = vec![false; size];
                let mut need_md = false;
                for r in &n.segment_requests {
                    if r.start_offset == 0 && r.end_offset == 0 {
                        need_md = true;
                    }
                    let x = (r.start_offset as usize).min(size);
                    let y = (r.end_offset as usize).min(size);
                    for b in need.iter_mut().take(y).skip(x) {
                        *b = true;
                    }
                }
                for e in em.iter().filter(|e| e.0 > a.0) {
                    match &e.4.payload {
                        PDUPayload::FileData(FileDataPDU::Unsegmented(u)) => {
                            for i in 0..u.file_data.len() {
                                if let Some(b) = need.get_mut(u.offset as usize + i) {
                                    *b = false;
                                }
                            }
                        }
                        PDUPayload::Directive(Operations::Metadata(_)) => need_md = false,
                        _ => {}
                    }
                }
                let missing = need.iter().filter(|b| **b).count();
                if missing > 0 || need_md {
                    let first = need.iter().position(|b| *b).unwrap_or(0);
                    let shape = n.segment_requests.iter().map(|r| if r.start_offset == 0 && r.end_offset == 0 { "md" } else if r.start_offset > r.end_offset { "inv" } else if r.end_offset as usize > size { "past-eof" } else if (r.end_offset - r.start_offset) as usize > seg { "long" } else { "seg" }).collect::<Vec<_>>();
                    let mut sh = shape.clone();
                    sh.sort();
                    sh.dedup();
                    rep.violate("request-not-answered", format!("shapes={:?} metadata-missing={} data-missing={}", sh, need_md, missing > 0), &info.case, w(&format!("NAK {:?} delivered to the sender: {} requested in-file bytes (first at {}) {} were never retransmitted afterwards", n.segment_requests.iter().map(|r| (r.start_offset, r.end_offset)).collect::<Vec<_>>(), missing, first, if need_md { "and the metadata" } else { "" })));
                }
            }
        }
    }
    if fd_checked > 0 {
        rep.nontrivial(case_sig(info, log));
        if retrans > 0 {
            rep.sample(sample_json(log, info, 40));
        }
    }
}

pub fn run_c07(tier: &str, seed: u64, replay: Option<&str>) -> (Meta, Report) {
    let thorough = tier == "thorough";
    let meta = Meta {
        property: "C07",
        level: "exploration",
        rule: "scripted = one real sending daemon against a scripted receiver: random sizes around segment boundaries (1..12 segments of 16/32/64/100 bytes), 1-3 NAK injections per run of shapes {overlapping, unsorted, empty list, duplicates, start>end, (x,x), reaching beyond EOF, entirely beyond EOF, longer than a segment, whole file, (0,0), random mixture}, each fired after a chosen arrival index of the first pass (so that it reaches the sender while the pass is running) or after the EOF; every third case walks the shape list systematically. two-daemon = the C01 random family and the C02 single-fault family (real receiver, immediate-mode NAKs during the first pass) judged by the same byte-level oracle, huge = sparse sources of 2^32-2 .. 2^33 bytes: size fields and large-file flag of every PDU; the byte-level oracle also runs over four families of other properties' workloads (C19 rand: suspensions; C03 primseq: primitive sequences; C10 rand: cancels; C02 adaptive: long recoveries). distinct_nontrivial = distinct (config, size, event-order) signatures among runs with at least one file-data PDU checked.".into(),
        exhaustive: false,
        assumptions: vec!["NAK ranges reach at most a few segments beyond the end of the file (an unbounded range makes the sender enumerate 2^32/segment entries; recorded as an observation, not judged here)".into(), "zero-length file-data PDUs carry nothing and are only counted".into(), "first-pass tiles are recognised by position: a PDU equal to the next tile advances the cursor, every other data PDU must be covered by requests delivered earlier".into()],
        require: vec![("c07_retransmissions_checked".into(), 500), ("c07_naks_with_obligation".into(), 300), ("c07_eof_checked".into(), 500), ("c07_metadata_checked".into(), 500), ("c07_runs_with_suspend_resume_at_sender".into(), 100), ("c07_huge_runs_judged".into(), 5)],
        extra: vec![],
    };
    if let Some(r) = replay {
        let (p, fam, idx, sd) = parse_case(r);
        let case = match p.as_str() {
            "C07" => c07_case(&fam, idx, sd),
            _ => crate::p_xfer::any_case(r),
        };
        if fam == "huge" {
            return (meta, run_single(case.expect("case"), judge_c07_huge));
        }
        return (meta, run_single(case.expect("case"), judge_c07));
    }
    let ns = if thorough { 1_500_000 } else { 5_000 };
    let mut rep = run_cases(ns, "c07-scripted", move |i| c07_case("scripted", i, seed), judge_c07);
    rep.add("cases:scripted", ns as u64);
    let n1 = if thorough { 500_000 } else { 3_000 };
    rep.merge(run_cases(n1, "c07-c01rand", move |i| crate::p_xfer::c01_case("rand", i, seed), judge_c07));
    rep.add("cases:two-daemon-random", n1 as u64);
    let st = if thorough { 1 } else { 6 };
    let n2 = 10_320 / st;
    rep.merge(run_cases(n2, "c07-c02sys1", move |i| crate::p_xfer::c02_case("sys1", i * st, seed), judge_c07));
    rep.add("cases:two-daemon-single-fault", n2 as u64);
    let nh = if thorough { 40 } else { 10 };
    rep.merge(run_cases(nh, "c07-huge", move |i| c07_case("huge", i, seed), judge_c07_huge));
    rep.add("cases:huge", nh as u64);
    // the same byte-level oracle over other properties' workloads: suspensions, primitive sequences, cancels,
    // the adaptive dropper (long recoveries with many NAK rounds)
    let nx = if thorough { 100_000 } else { 800 };
    rep.merge(run_cases(nx, "c07-x-c19rand", move |i| crate::p_proto::c19_case("rand", i, seed), judge_c07));
    rep.merge(run_cases(nx, "c07-x-c03primseq", move |i| crate::p_xfer::c03_case("primseq", i, seed), judge_c07));
    rep.merge(run_cases(nx, "c07-x-c10rand", move |i| crate::p_final::c10_case("rand", i, seed), judge_c07));
    rep.merge(run_cases(nx, "c07-x-c02adaptive", move |i| crate::p_xfer::c02_case("adaptive", i, seed), judge_c07));
    rep.add("cases:cross(c19-rand,c03-primseq,c10-rand,c02-adaptive)", 4 * nx as u64);
    (meta, rep)
}

// ===================================================================================== C08

#[derive(Clone, Debug)]
pub struct SenderScript {
    pub size: usize,
    pub seg: usize,
    pub content: Vec<u8>,
    /// order of first deliveries: entries are "M" (metadata), "E" (EOF) or a segment index
    pub order: Vec<Item>,
    /// how many NAK rounds are answered with nothing (then everything asked for is sent)
    pub silent_rounds: usize,
    /// segments that are withheld again in the first answered round
    pub lose_again: Vec<usize>,
    pub dup_eof: bool,
    /// send a Prompt(NAK) after this many of the scripted deliveries
    pub prompt_after: Option<usize>,
    pub spacing_ms: u64,
    pub checksum: ChecksumType,
    pub crc: bool,
    /// a late duplicate of this segment, sent this many ms after the Finished PDU was acknowledged
    /// (the transaction has ended by then: the daemon starts a new receive transaction for it)
    pub late_dup: Option<(usize, u64)>,
    /// the sender's PDUs carry the large-file flag (64-bit offsets and sizes): NAKs then hold fewer requests
    pub large: bool,
}
#[derive(Clone, Copy, Debug, PartialEq)]
pub enum Item {
    M,
    E,
    D(usize),
}

pub struct ScriptedSender {
    s: SenderScript,
    header: PDUHeader,
    rounds_seen: usize,
    last_nak_ms: u64,
    pending: Vec<(u64, u64)>,
    answer_armed: bool,
    finished: bool,
}
impl ScriptedSender {
    pub fn new(s: SenderScript, src_id: u16, dst_id: u16, mode: TransmissionMode) -> Self {
        let header = PDUHeader {
            version: U3::One,
            pdu_type: PDUType::FileDirective,
            direction: Direction::ToReceiver,
            transmission_mode: mode,
            crc_flag: if s.crc { CRCFlag::Present } else { CRCFlag::NotPresent },
            large_file_flag: if s.large { FileSizeFlag::Large } else { FileSizeFlag::Small },
            pdu_data_field_length: 0,
            segmentation_control: SegmentationControl::NotPreserved,
            segment_metadata_flag: SegmentedData::NotPresent,
            source_entity_id: VariableID::from(src_id),
            transaction_sequence_number: VariableID::from(7u16),
            destination_entity_id: VariableID::from(dst_id),
        };
        ScriptedSender { s, header, rounds_seen: 0, last_nak_ms: 0, pending: vec![], answer_armed: false, finished: false }
    }
    fn md(&self) -> PDU {
        mk_pdu(&self.header, Direction::ToReceiver, PDUPayload::Directive(Operations::Metadata(MetadataPDU { closure_requested: false, checksum_type: self.s.checksum, file_size: self.s.size as u64, source_filename: "src0.bin".into(), destination_filename: "dst0.bin".into(), options: vec![] })))
    }
    fn fd(&self, off: usize, len: usize) -> PDU {
        mk_pdu(&self.header, Direction::ToReceiver, PDUPayload::FileData(FileDataPDU::Unsegmented(UnsegmentedFileData { offset: off as u64, file_data: self.s.content[off..off + len].to_vec() })))
    }
    fn eof(&self) -> PDU {
        let sum = if self.s.checksum == ChecksumType::Modular { ref_checksum(&self.s.content) } else { 0 };
        mk_pdu(&self.header, Direction::ToReceiver, PDUPayload::Directive(Operations::EoF(EndOfFile { condition: Condition::NoError, checksum: sum, file_size: self.s.size as u64, fault_location: None })))
    }
    fn seg_range(&self, i: usize) -> (usize, usize) {
        let a = i * self.s.seg;
        (a, self.s.seg.min(self.s.size - a))
    }
}
impl Peer for ScriptedSender {
    fn start(&mut self, ctx: &mut PeerCtx) {
        let mut t = 0u64;
        let order = self.s.order.clone();
        for (n, it) in order.iter().enumerate() {
            let p = match it {
                Item::M => self.md(),
                Item::E => self.eof(),
                Item::D(i) => {
                    let (a, l) = self.seg_range(*i);
                    self.fd(a, l)
                }
            };
            ctx.send(1, p, t);
            if *it == Item::E && self.s.dup_eof {
                ctx.send(1, self.eof(), t + 1);
            }
            if self.s.prompt_after == Some(n) {
                ctx.send(1, mk_pdu(&self.header, Direction::ToReceiver, PDUPayload::Directive(Operations::Prompt(PromptPDU { nak_or_keep_alive: NakOrKeepAlive::Nak }))), t + 1);
            }
            t += self.s.spacing_ms;
        }
    }
    fn on_pdu(&mut self, _from: Ent, pdu: &PDU, ctx: &mut PeerCtx) {
        match &pdu.payload {
            PDUPayload::Directive(Operations::Nak(n)) => {
                // collect the round; answer 300 ms after its last PDU
                if ctx.now_ms > self.last_nak_ms + 100 || self.pending.is_empty() {
                    self.rounds_seen += 1;
                }
                self.last_nak_ms = ctx.now_ms;
                for r in &n.segment_requests {
                    self.pending.push((r.start_offset, r.end_offset));
                }
                if !self.answer_armed {
                    self.answer_armed = true;
                    ctx.timer(5, 300);
                }
            }
            PDUPayload::Directive(Operations::Finished(f)) => {
                let first = !self.finished;
                self.finished = true;
                ctx.send(1, mk_pdu(&self.header, Direction::ToReceiver, PDUPayload::Directive(Operations::Ack(PositiveAcknowledgePDU { directive: PDUDirective::Finished, directive_subtype_code: ACKSubDirective::Finished, condition: f.condition, transaction_status: TransactionStatus::Terminated }))), 0);
                if let (true, Some((i, after))) = (first, self.s.late_dup) {
                    if i * self.s.seg < self.s.size {
                        let (a, l) = self.seg_range(i);
                        ctx.send(1, self.fd(a, l), after);
                    }
                }
            }
            _ => {}
        }
    }
    fn on_timer(&mut self, tag: u32, ctx: &mut PeerCtx) {
        if tag == 5 {
            self.answer_armed = false;
            let reqs = std::mem::take(&mut self.pending);
            if self.rounds_seen <= self.s.silent_rounds {
                return;
            }
            let first_answer = self.rounds_seen == self.s.silent_rounds + 1;
            let mut t = 0;
            for (a, b) in reqs {
                if a == 0 && b == 0 {
                    ctx.send(1, self.md(), t);
                    t += 1;
                    continue;
                }
                if a >= b {
                    continue;
                }
                let mut x = a as usize;
                let end = (b as usize).min(self.s.size);
                while x < end {
                    let l = self.s.seg.min(end - x);
                    let segi = x / self.s.seg;
                    if !(first_answer && self.s.lose_again.contains(&segi)) {
                        ctx.send(1, self.fd(x, l), t);
                        t += 1;
                    }
                    x += l;
                }
            }
        }
    }
}

pub fn c08_script(fam: &str, idx: usize, seed: u64) -> Option<(SenderScript, Knobs, String)> {
    let mut rng = Rng::derive(seed, 801, idx as u64);
    let mut k = Knobs::base();
    match fam {
        "subsets" => {
            // every subset of {metadata, seg0..seg(n-1)} lost, n = 0..6, x 4 NAK procedures x 2 segment sizes
            let mut i = idx;
            let mut found = None;
            'o: for nak in 0..4usize {
                for seg in [16usize, 20, 32] {
                    for n in 0..=6usize {
                        let cnt = 1usize << (n + 1);
                        if i < cnt {
                            found = Some((nak, seg, n, i));
                            break 'o;
                        }
                        i -= cnt;
                    }
                }
            }
            let (nak, seg, n, mask) = found?;
            k.nak = nak_procs()[nak];
            k.seg = seg as u16;
            let size = if n == 0 { 0 } else { n * seg - (idx % 3) };
            let cl = rng.below(5);
            let content = content(&mut rng, size, cl, seg, 0xC08);
            let mut order = vec![];
            if mask & 1 == 0 {
                order.push(Item::M);
            }
            for s in 0..n {
                if (mask >> (s + 1)) & 1 == 0 {
                    order.push(Item::D(s));
                }
            }
            order.push(Item::E);
            let sc = SenderScript { size, seg, content, order, silent_rounds: idx % 2, lose_again: vec![], dup_eof: idx % 5 == 0, prompt_after: None, spacing_ms: 2, checksum: ChecksumType::Modular, crc: idx % 4 == 1, late_dup: if idx % 3 == 0 && n > 0 { Some((n - 1, [50u64, 600, 1500][(idx / 3) % 3])) } else { None }, large: idx % 6 == 5 && seg >= 32 };
            let desc = format!("subset: nak={} seg={} segments={} lost-mask={:#b} (bit0 = metadata)", nak_name(&k.nak), seg, n, mask);
            Some((sc, k, desc))
        }
        "orders" => {
            k.nak = nak_procs()[rng.usize(4)];
            let seg = *rng.pick(&[16usize, 20, 28, 32, 36, 44, 64, 100]);
            k.seg = seg as u16;
            let n = rng.usize(9);
            let size = if n == 0 { 0 } else { (n * seg).saturating_sub(rng.usize(seg)).max(1) };
            let nseg = size.div_ceil(seg);
            let cl = rng.below(5);
            let content = content(&mut rng, size, cl, seg, 0xC08);
            let mut items: Vec<Item> = vec![Item::M];
            for s in 0..nseg {
                items.push(Item::D(s));
            }
            // lose a random subset
            let mut order: Vec<Item> = items.into_iter().filter(|_| !rng.chance(1, 3)).collect();
            match rng.below(5) {
                0 => order.reverse(),
                1 => rng.shuffle(&mut order),
                2 => {
                    // EOF first, data after it
                    order.insert(0, Item::E);
                }
                3 => {
                    let p = rng.usize(order.len() + 1);
                    order.insert(p, Item::E);
                }
                _ => {}
            }
            if !order.contains(&Item::E) {
                order.push(Item::E);
            }
            // duplicates of delivered data
            if rng.bool() && order.len() > 1 {
                let d = order[rng.usize(order.len())];
                if d != Item::E {
                    let p = rng.usize(order.len() + 1);
                    order.insert(p, d);
                }
            }
            let lose_again: Vec<usize> = (0..nseg).filter(|_| rng.chance(1, 4)).collect();
            let prompt_after = if rng.chance(1, 3) { Some(rng.usize(order.len())) } else { None };
            let late_dup = if nseg > 0 && rng.bool() { Some((rng.usize(nseg), *rng.pick(&[5u64, 50, 400, 900, 1500, 5000]))) } else { None };
            let sc = SenderScript { size, seg, content, order, silent_rounds: rng.usize(3), lose_again, dup_eof: rng.chance(1, 4), prompt_after, spacing_ms: *rng.pick(&[1u64, 2, 300, 700]), checksum: if rng.chance(1, 5) { ChecksumType::Null } else { ChecksumType::Modular }, crc: rng.bool(), late_dup, large: seg >= 32 && rng.chance(1, 4) };
            let desc = format!("orders: nak={} seg={} size={} order={:?} silent_rounds={} lose_again={:?} dup_eof={} prompt_after={:?} spacing={}ms late_dup={:?}", nak_name(&k.nak), seg, size, sc.order, sc.silent_rounds, sc.lose_again, sc.dup_eof, sc.prompt_after, sc.spacing_ms, sc.late_dup);
            Some((sc, k, desc))
        }
        "suspeof" => {
            // the EOF and then one of the missing segments arrive while the receiver is suspended; after the
            // resume the first NAK round asks for what is missing THEN, not for what was missing when the EOF came
            k.nak = nak_procs()[rng.usize(4)];
            let seg = *rng.pick(&[16usize, 32, 64]);
            k.seg = seg as u16;
            let n = 4 + rng.usize(4);
            let size = n * seg - rng.usize(seg);
            let cl = rng.below(5);
            let content = content(&mut rng, size, cl, seg, 0xC08);
            // delivered before the suspension: metadata and the even segments below n-1; then the EOF and one odd
            // segment during the suspension; the other odd segments and the last one stay missing
            let mut order = vec![Item::M];
            for j in (0..n - 1).step_by(2) {
                order.push(Item::D(j));
            }
            let late = 1 + 2 * rng.usize((n - 1) / 2);
            order.push(Item::E);
            order.push(Item::D(late.min(n - 2)));
            let sc = SenderScript { size, seg, content, order, silent_rounds: 0, lose_again: vec![], dup_eof: false, prompt_after: None, spacing_ms: 300, checksum: ChecksumType::Modular, crc: rng.bool(), late_dup: None, large: false };
            let desc = format!("suspeof: nak={} seg={} segments={} order={:?}", nak_name(&k.nak), seg, n, sc.order);
            Some((sc, k, desc))
        }
        _ => None,
    }
}
pub fn c08_subsets_len() -> usize {
    let mut t = 0;
    for _nak in 0..4 {
        for _seg in 0..3 {
            for n in 0..=6usize {
                t += 1usize << (n + 1);
            }
        }
    }
    t
}

pub fn c08_case(fam: &str, idx: usize, seed: u64) -> Option<Case> {
    let case = format!("C08:{}:{}:{}", fam, idx, seed);
    let (script, mut k, desc) = c08_script(fam, idx, seed)?;
    k.crc = script.crc;
    k.checksum = script.checksum;
    let mut sc = two_party(&case, seed ^ idx as u64, &k, script.content.clone());
    sc.entities[0].scripted = true;
    sc.transfers[0].start_ms = 0;
    sc.latency_ms = 1;
    sc.paced = true;
    sc.peers.push((0, Box::new(ScriptedSender::new(script.clone(), 1, 2, ack()))));
    sc.observe_ms = 3 * bound_ms(&k.config(), 2000);
    // the receiving user suspends and resumes between the first two (widely spaced) deliveries, i.e. with
    // whatever gap the first delivery left and well before the EOF: resuming is no reason to send a NAK
    // under the deferred procedure
    let mut desc = desc;
    let e_pos = script.order.iter().position(|i| *i == Item::E).unwrap_or(0);
    if fam == "orders" && script.spacing_ms >= 300 && e_pos >= 2 && script.prompt_after.map_or(true, |p| p >= 2) && idx % 2 == 0 {
        sc.preset_ids.push((0, cfdp_core::transaction::TransactionID(VariableID::from(1u16), VariableID::from(7u16))));
        sc.scripts.push(Script { trig: Trigger::AfterArrive(1, 0), delay_ms: 20, act: Act::Prim(1, PrimKind::Suspend, 0) });
        sc.scripts.push(Script { trig: Trigger::AfterArrive(1, 0), delay_ms: 170, act: Act::Prim(1, PrimKind::Resume, 0) });
        desc.push_str(" + receiver suspended 20..170 ms after the first delivery");
    }
    if fam == "suspeof" {
        // deliveries are 300 ms apart: suspend 150 ms before the EOF, resume 150 ms after the segment that follows it
        let e_at = e_pos as u64 * 300;
        sc.preset_ids.push((0, cfdp_core::transaction::TransactionID(VariableID::from(1u16), VariableID::from(7u16))));
        sc.scripts.push(Script { trig: Trigger::At(e_at - 150), delay_ms: 0, act: Act::Prim(1, PrimKind::Suspend, 0) });
        sc.scripts.push(Script { trig: Trigger::At(e_at + 450), delay_ms: 0, act: Act::Prim(1, PrimKind::Resume, 0) });
    }
    let mut cs = Case::from(sc, &k, format!("{} :: {}", k.describe(), desc), false);
    cs.info.desc.push_str(&format!(" size={}", script.size));
    Some(cs)
}

/// suspeof family: the first NAK round after the resume does not ask for anything the receiver held when it was resumed
pub fn judge_c08_suspeof(info: &Info, log: &RunLog, rep: &mut Report) {
    let d = Dig::new(log);
    count_observed(rep, log);
    let id = cfdp_core::transaction::TransactionID(VariableID::from(1u16), VariableID::from(7u16));
    let size = info.transfers[0].content.len();
    let r_t = match d.prims(1, 0).into_iter().find(|p| p.2 == PrimKind::Resume && p.3).map(|p| p.1) {
        Some(t) => t,
        None => return,
    };
    let mut held = vec![false; size];
    let mut md_held = false;
    for a in d.arrivals(1, id).into_iter().filter(|a| a.1 <= r_t) {
        match &a.3.payload {
            PDUPayload::FileData(FileDataPDU::Unsegmented(u)) => {
                for i in 0..u.file_data.len() {
                    if let Some(h) = held.get_mut(u.offset as usize + i) {
                        *h = true;
                    }
                }
            }
            PDUPayload::Directive(Operations::Metadata(_)) => md_held = true,
            _ => {}
        }
    }
    let naks: Vec<_> = d.emits(1, id).into_iter().filter(|e| e.3 == Kind::Nak && e.1 >= r_t).collect();
    let first_t = match naks.first() {
        Some(e) => e.1,
        None => return,
    };
    rep.count("c08_suspeof_first_rounds_judged");
    for e in naks.iter().filter(|e| e.1 <= first_t + 100_000) {
        if let PDUPayload::Directive(Operations::Nak(n)) = &e.4.payload {
            for r in &n.segment_requests {
                let (a, b) = (r.start_offset as usize, (r.end_offset as usize).min(size));
                if a == 0 && r.end_offset == 0 {
                    if md_held {
                        rep.violate("nak-asks-for-held-data", "after-resume what=metadata".into(), &info.case, witness(log, info, "the first NAK after the resume asks for the metadata, which the receiver already held"));
                    }
                    continue;
                }
                if a < b && held[a..b].iter().any(|h| *h) {
                    rep.violate("nak-asks-for-held-data", format!("after-resume nak={}", info.knobs[1].shape()), &info.case, witness(log, info, &format!("the first NAK after the resume asks for ({},{}), part of which had arrived before the resume", r.start_offset, r.end_offset)));
                    return;
                }
            }
        }
    }
    rep.nontrivial(case_sig(info, log));
}

pub fn judge_c08(info: &Info, log: &RunLog, rep: &mut Report) {
    count_observed(rep, log);
    if log.recs.iter().any(|r| matches!(&r.ev, Ev::Ind { ent: 1, ind: cfdp_core::daemon::Indication::Resumed(_) })) {
        rep.count("c08_runs_with_receiver_suspend_resume");
    }
    let t = &info.transfers[0];
    let k = &info.knobs[1];
    let seg = k.seg as usize;
    let size = t.content.len();
    let w = |head: &str| witness(log, info, head);
    // the scripted sender uses sequence number 7
    let id = cfdp_core::transaction::TransactionID(VariableID::from(1u16), VariableID::from(7u16));
    let d = Dig::new(log);
    // only the first life of the transaction is judged: PDUs arriving after its end make the daemon
    // start a new (stray) receive transaction from scratch, which is C11's business
    let first_end = d.spans(id, TaskKind::Recv).first().and_then(|s| s.end_us).unwrap_or(u64::MAX);
    let arr: Vec<_> = d.arrivals(1, id).into_iter().filter(|a| a.1 <= first_end).collect();
    let em: Vec<_> = d.emits(1, id).into_iter().filter(|e| e.1 <= first_end).collect();
    if arr.is_empty() {
        return;
    }
    let immediate = matches!(k.nak, NakProcedure::Immediate(_));
    let delay_us = match k.nak {
        NakProcedure::Immediate(x) | NakProcedure::Deferred(x) => x.as_micros() as u64,
    };
    // what has been delivered before a given log index
    let state_before = |li: usize| -> (bool, Vec<bool>, bool, bool) {
        let mut md = false;
        let mut eof = false;
        let mut prompt = false;
        let mut cov = vec![false; size];
        for a in arr.iter().filter(|a| a.0 < li) {
            match &a.3.payload {
                PDUPayload::Directive(Operations::Metadata(_)) => md = true,
                PDUPayload::Directive(Operations::EoF(_)) => eof = true,
                PDUPayload::Directive(Operations::Prompt(_)) => prompt = true,
                PDUPayload::FileData(FileDataPDU::Unsegmented(u)) => {
                    for i in 0..u.file_data.len() {
                        if let Some(c) = cov.get_mut(u.offset as usize + i) {
                            *c = true;
                        }
                    }
                }
                _ => {}
            }
        }
        (md, cov, eof, prompt)
    };
    let hdr_len = 4 + 2 + 2 + 2; // fixed octets + 2-byte source, sequence number, destination
    // (offsets are 8 octets wide when the sender's PDUs carry the large-file flag)
    let large = arr.first().map(|a| a.3.header.large_file_flag == FileSizeFlag::Large).unwrap_or(false);
    if large {
        rep.count("c08_runs_with_large_file_flag");
    }
    let max_pdu = hdr_len + if large { 8 } else { 4 } + seg + if k.crc { 2 } else { 0 };
    let naks: Vec<_> = em.iter().filter(|e| e.3 == Kind::Nak).collect();
    let cfg = format!("nak={} seg={}", k.shape(), seg);
    // ---- every NAK PDU is well-formed
    for e in &naks {
        let n = match &e.4.payload {
            PDUPayload::Directive(Operations::Nak(n)) => n,
            _ => continue,
        };
        rep.count("c08_nak_pdus_checked");
        let (md, _cov, eof, prompt) = state_before(e.0);
        // delivered strictly earlier than this instant (the metadata may arrive in the very instant the NAK leaves)
        // (the PDU is logged when the link takes it, up to a few ms after it was built: 5 ms slack)
        let md_earlier = arr.iter().any(|a| a.1 + 5_000 < e.1 && a.2 == Kind::Metadata);
        let enc_len = match &log.recs[e.0].ev {
            Ev::Emit { len, .. } => *len,
            _ => 0,
        };
        if enc_len > max_pdu {
            rep.violate("nak-too-large", format!("{} over-by={}", cfg, (enc_len - max_pdu).min(16)), &info.case, w(&format!("NAK PDU of {} bytes; the largest file-data PDU of this configuration is {} bytes", enc_len, max_pdu)));
        }
        if n.segment_requests.is_empty() && !prompt {
            rep.violate("nak-malformed", format!("{} empty-request-list eof={} prompt={}", cfg, eof, prompt), &info.case, w("NAK PDU without any segment request"));
        }
        for r in &n.segment_requests {
            let (a, b) = (r.start_offset, r.end_offset);
            if a == 0 && b == 0 {
                if md_earlier {
                    rep.violate("nak-malformed", format!("{} (0,0)-with-metadata-held", cfg), &info.case, w("NAK asks for the metadata (0,0) although the metadata had been delivered"));
                }
                continue;
            }
            if a >= b {
                rep.violate("nak-malformed", format!("{} {}", cfg, if a == b { "empty-range" } else { "inverted-range" }), &info.case, w(&format!("NAK contains the segment request ({},{})", a, b)));
                continue;
            }
            if a < n.start_of_scope || b > n.end_of_scope {
                rep.violate("nak-malformed", format!("{} request-outside-scope", cfg), &info.case, w(&format!("segment request ({},{}) outside the announced scope ({},{})", a, b, n.start_of_scope, n.end_of_scope)));
            }
            if b > size as u64 {
                rep.violate("nak-malformed", format!("{} request-beyond-file", cfg), &info.case, w(&format!("segment request ({},{}) reaches beyond the file size {}", a, b, size)));
            }
        }
        // deferred: no unsolicited NAK before EOF
        if !immediate && !eof && !prompt {
            rep.violate("nak-before-eof-in-deferred-mode", cfg.clone(), &info.case, w("deferred NAK procedure, yet a NAK was emitted before the EOF arrived and without a prompt"));
        }
        let _ = md;
    }
    // ---- later lives (a receive transaction re-created by a late duplicate after the first one ended):
    // it runs under the same configuration, so under the deferred procedure it, too, stays silent
    // until an EOF or a prompt reaches it
    for sp in d.spans(id, TaskKind::Recv).iter().skip(1) {
        let (s0, s1) = (sp.start_us, sp.end_us.unwrap_or(u64::MAX));
        rep.count("c08_later_lives_seen");
        if immediate {
            continue;
        }
        rep.count("c08_later_lives_judged(deferred)");
        for e in d.emits(1, id).into_iter().filter(|e| e.3 == Kind::Nak && e.1 >= s0 && e.1 <= s1 && e.1 > first_end) {
            let solicited = d.arrivals(1, id).into_iter().any(|a| a.1 >= first_end && a.1 <= e.1 && matches!(a.2, Kind::Eof | Kind::Prompt));
            if !solicited {
                rep.violate("nak-before-eof-in-deferred-mode", format!("{} life=re-created", cfg), &info.case, w("deferred NAK procedure configured for this peer, yet the receive transaction re-created by a late duplicate emitted a NAK although neither an EOF nor a prompt had reached it"));
                break;
            }
        }
    }
    // ---- after EOF: the requests issued between two deliveries cover exactly what is missing
    // epoch = interval between consecutive deliveries of file data / metadata (or EOF) to the receiver
    let fault_t = d.faults(1, id).first().map(|f| f.1).unwrap_or(u64::MAX);
    let eof_arrival = arr.iter().find(|a| a.2 == Kind::Eof).map(|a| (a.0, a.1));
    // rounds (for the repeat rule): runs of NAK PDUs less than 100 ms apart
    let mut rounds: Vec<Vec<usize>> = vec![];
    for (i, e) in naks.iter().enumerate() {
        let new_round = match rounds.last() {
            None => true,
            Some(r) => e.1 > naks[*r.last().unwrap()].1 + 100_000,
        };
        if new_round {
            rounds.push(vec![i]);
        } else {
            rounds.last_mut().unwrap().push(i);
        }
    }
    // a request list is computed when a round starts and then leaves at one PDU per ms: every PDU of a
    // round is as old as the round's first PDU
    let mut round_start_of: std::collections::HashMap<usize, u64> = std::collections::HashMap::new();
    for r in &rounds {
        for i in r {
            round_start_of.insert(naks[*i].0, naks[r[0]].1);
        }
    }
    if let Some((eof_idx, eof_t)) = eof_arrival {
        let mut marks: Vec<(usize, u64)> = vec![(eof_idx, eof_t)];
        for a in arr.iter().filter(|a| a.1 >= eof_t && a.0 != eof_idx && matches!(a.2, Kind::FileData | Kind::Metadata)) {
            marks.push((a.0, a.1));
        }
        marks.sort();
        // requests carried over from epochs that a delivery cut short before the request queue had drained
        let mut carried = vec![false; size];
        let mut carried_md = false;
        for (mi, m) in marks.iter().enumerate() {
            let next = marks.get(mi + 1).cloned().unwrap_or((usize::MAX, u64::MAX));
            let in_epoch: Vec<&&(usize, u64, usize, Kind, &PDU, &str)> = naks.iter().filter(|n| n.0 > m.0 && n.0 < next.0).collect();
            if in_epoch.is_empty() {
                continue;
            }
            let (md, cov, _, _) = state_before(m.0 + 1);
            let last_t = in_epoch.last().unwrap().1;
            // the request queue must have had time to drain: nothing delivered for 50 ms after the last NAK,
            // and the transaction neither faulted nor ended in the meantime
            // ... and the round the procedure owes after the EOF (NAK delay d) has been issued in this epoch
            let drained = next.1 > last_t + 50_000 && fault_t > last_t + 50_000 && first_end > last_t + 50_000 && last_t + 2_000 >= eof_t + delay_us;
            let mut asked = carried.clone();
            let mut asked_late = vec![false; size]; // requests built for sure after the delivery that opened the epoch
            let mut asked_md = carried_md;
            for n in &in_epoch {
                if let PDUPayload::Directive(Operations::Nak(nk)) = &n.4.payload {
                    for q in &nk.segment_requests {
                        if q.start_offset == 0 && q.end_offset == 0 {
                            asked_md = true;
                        }
                        for x in (q.start_offset as usize).min(size)..(q.end_offset as usize).min(size) {
                            asked[x] = true;
                            if round_start_of.get(&n.0).cloned().unwrap_or(0) > m.1 + 5_000 {
                                asked_late[x] = true;
                            }
                        }
                    }
                }
            }
            rep.count("c08_epochs_after_eof_judged");
            if in_epoch.len() > 1 {
                rep.count("c08_rounds_split_over_several_pdus");
            }
            let missing: Vec<bool> = cov.iter().map(|c| !*c).collect();
            let extra = (0..size).filter(|i| !missing[*i] && asked_late[*i]).count();
            if extra > 0 {
                rep.violate("nak-asks-for-held-bytes", format!("{} pdus={}", cfg, in_epoch.len().min(3)), &info.case, w(&format!("after EOF the NAKs emitted from {:.3}s on ask for {} bytes that had already been delivered", in_epoch[0].1 as f64 / 1e6, extra)));
            }
            if drained {
                carried = vec![false; size];
                carried_md = false;
                rep.count("c08_rounds_after_eof_judged");
                let left_out = (0..size).filter(|i| missing[*i] && !asked[*i]).count();
                if left_out > 0 {
                    let firstb = (0..size).find(|i| missing[*i] && !asked[*i]).unwrap();
                    let wherep = if firstb == 0 { "first-segment" } else if firstb + seg >= size { "last-segment" } else { "middle" };
                    rep.violate("nak-round-leaves-out-missing-bytes", format!("{} where={} pdus={}", cfg, wherep, in_epoch.len().min(3)), &info.case, w(&format!("after EOF the NAKs emitted between {:.3}s and the next delivery do not ask for {} missing bytes (first at offset {})", in_epoch[0].1 as f64 / 1e6, left_out, firstb)));
                }
                if !md && !asked_md {
                    rep.violate("nak-round-leaves-out-metadata", cfg.clone(), &info.case, w("after EOF the NAKs emitted before the next delivery do not ask for the missing metadata"));
                }
            } else {
                carried = asked.clone();
                carried_md = asked_md;
                rep.count("c08_epochs_cut_short");
            }
        }
    }
    // ---- after EOF with something missing there must be a round at all (within the delay + 50 ms)
    if let Some(e) = arr.iter().find(|a| a.2 == Kind::Eof) {
        let (md, cov, _, _) = state_before(e.0 + 1);
        let anything_missing = !md || cov.iter().any(|c| !*c);
        if anything_missing {
            rep.count("c08_eof_with_something_missing");
            let deadline = e.1 + delay_us + 50_000;
            // unless everything arrives in the meantime
            let completed_by = arr.iter().filter(|a| a.1 <= deadline).count();
            let (md2, cov2, _, _) = state_before(arr.get(completed_by.saturating_sub(1)).map(|a| a.0 + 1).unwrap_or(0));
            let still = !md2 || cov2.iter().any(|c| !*c);
            let got = naks.iter().any(|n| n.1 >= e.1 && n.1 <= deadline);
            if still && !got && fault_t > deadline {
                let what = if !md { "metadata" } else if !cov[0] { "first-segment" } else if !cov[size - 1] { "last-segment" } else { "middle" };
                rep.violate("no-nak-after-eof", format!("{} missing={}", cfg, what), &info.case, w(&format!("EOF delivered at {:.3}s with data or metadata missing, but no NAK followed within the NAK delay", e.1 as f64 / 1e6)));
            }
        }
        // rounds repeat every Tn while nothing arrives
        let tn = k.tn as u64 * 1_000_000;
        for (i, r) in rounds.iter().enumerate() {
            let last = naks[*r.last().unwrap()];
            if last.1 < e.1 {
                continue;
            }
            let next_arr = arr.iter().find(|a| a.1 + 5_000 >= last.1 && matches!(a.2, Kind::FileData | Kind::Metadata)).map(|a| a.1).unwrap_or(u64::MAX);
            let horizon = last.1 + tn + 100_000;
            let done = em.iter().any(|x| x.3 == Kind::Finished && x.1 <= horizon);
            if next_arr <= horizon || fault_t <= horizon || log.end_us <= horizon || done {
                continue;
            }
            let ended = d.ended(id, TaskKind::Recv).unwrap_or(u64::MAX);
            if ended <= horizon {
                continue;
            }
            rep.count("c08_round_repeats_judged");
            if rounds.get(i + 1).map(|n| naks[n[0]].1 > horizon).unwrap_or(true) {
                rep.violate("nak-round-not-repeated", cfg.clone(), &info.case, w(&format!("nothing arrived for {} s after the NAK round at {:.3}s, yet no new round was emitted", k.tn, last.1 as f64 / 1e6)));
            }
        }
    }
    // ---- immediate: a newly detected gap is requested at the next opportunity / after the delay if it persists
    if immediate {
        let mut prev_end = 0usize;
        let eof_t = arr.iter().find(|a| a.2 == Kind::Eof).map(|a| a.1).unwrap_or(u64::MAX);
        for a in arr.iter() {
            if let PDUPayload::FileData(FileDataPDU::Unsegmented(u)) = &a.3.payload {
                let off = u.offset as usize;
                if a.1 < eof_t && off > prev_end && !u.file_data.is_empty() {
                    let (gs, ge) = (prev_end, off);
                    let deadline = a.1 + delay_us + 20_000;
                    if deadline < fault_t && deadline < log.end_us && deadline < eof_t {
                        // bytes of the gap still missing at the deadline
                        let idx_dead = arr.iter().filter(|x| x.1 <= a.1 + delay_us).map(|x| x.0 + 1).max().unwrap_or(0);
                        let (_, covd, _, _) = state_before(idx_dead);
                        let still: Vec<usize> = (gs..ge.min(size)).filter(|i| !covd[*i]).collect();
                        rep.count("c08_immediate_gaps_judged");
                        if !still.is_empty() {
                            let mut asked = vec![false; size];
                            for n in naks.iter().filter(|n| n.1 >= a.1 && n.1 <= deadline) {
                                if let PDUPayload::Directive(Operations::Nak(nk)) = &n.4.payload {
                                    for q in &nk.segment_requests {
                                        for x in (q.start_offset as usize).min(size)..(q.end_offset as usize).min(size) {
                                            asked[x] = true;
                                        }
                                    }
                                }
                            }
                            let miss = still.iter().filter(|i| !asked[**i]).count();
                            if miss > 0 {
                                rep.violate("immediate-gap-not-requested", format!("{} delay={}", cfg, if delay_us == 0 { "0" } else { "d" }), &info.case, w(&format!("the segment delivered at {:.3}s opened the gap [{},{}); {} of its bytes were still missing and had not been requested by {:.3}s", a.1 as f64 / 1e6, gs, ge, miss, deadline as f64 / 1e6)));
                            }
                        }
                    }
                }
                prev_end = prev_end.max(off + u.file_data.len());
            }
        }
    }
    if !naks.is_empty() {
        rep.nontrivial(case_sig(info, log));
        rep.sample(sample_json(log, info, 40));
    }
}

pub fn run_c08(tier: &str, seed: u64, replay: Option<&str>) -> (Meta, Report) {
    let thorough = tier == "thorough";
    let meta = Meta {
        property: "C08",
        level: "exploration",
        rule: "one real receiving daemon against a scripted sender that knows exactly what it delivered. subsets = EVERY subset of {metadata, segment 0..n-1} lost, n = 0..6 segments, x 4 NAK procedures x segment sizes {16 (one request per NAK PDU: rounds split over several PDUs), 20 (not a multiple of the request size), 32} (complete), with 0 or 1 unanswered rounds and a duplicated EOF in every 5th case; orders = random loss subsets with arrival orders {in order, reversed, shuffled, EOF first, EOF in the middle, duplicates}, re-lost segments, 0-2 unanswered rounds, Prompt(NAK) at a random point, slow and fast pacing. The script answers a round 300 ms after its last PDU so that rounds are not cut short. distinct_nontrivial = distinct (config, size, event-order) signatures among runs in which at least one NAK was emitted.".into(),
        exhaustive: true,
        assumptions: vec!["the only size limit the configuration defines is the largest file-data PDU: header + offset + segment size (+CRC)".into(), "before EOF a request for bytes that arrived meanwhile is not judged (the statement demands exactness after EOF); it must still be well-formed".into()],
        require: vec![("c08_nak_pdus_checked".into(), 1000), ("c08_rounds_after_eof_judged".into(), 1000), ("c08_rounds_split_over_several_pdus".into(), 100), ("c08_immediate_gaps_judged".into(), 100), ("c08_round_repeats_judged".into(), 200), ("c08_later_lives_judged(deferred)".into(), 200), ("c08_runs_with_receiver_suspend_resume".into(), 50), ("c08_runs_with_large_file_flag".into(), 200), ("c08_suspeof_first_rounds_judged".into(), 100)],
        extra: vec![],
    };
    if let Some(r) = replay {
        let (_, fam, idx, sd) = parse_case(r);
        if fam == "suspeof" {
            return (meta, run_single(c08_case(&fam, idx, sd).expect("case"), judge_c08_suspeof));
        }
        return (meta, run_single(c08_case(&fam, idx, sd).expect("case"), judge_c08));
    }
    let n = c08_subsets_len();
    let mut rep = run_cases(n, "c08-subsets", move |i| c08_case("subsets", i, seed), judge_c08);
    rep.add("cases:subsets", n as u64);
    let nr = if thorough { 2_000_000 } else { 5_000 };
    rep.merge(run_cases(nr, "c08-orders", move |i| c08_case("orders", i, seed), judge_c08));
    rep.add("cases:orders", nr as u64);
    let nse = if thorough { 50_000 } else { 600 };
    rep.merge(run_cases(nse, "c08-suspeof", move |i| c08_case("suspeof", i, seed), judge_c08_suspeof));
    rep.add("cases:suspeof", nse as u64);
    let mut meta = meta;
    meta.extra.push(("x_subsets_space".into(), J::U(n as u64)));
    (meta, rep)
}

// ===================================================================================== generic script player

/// A peer that just plays a fixed list of (delay ms, PDU) towards entity 1 and acknowledges Finished.
pub struct ScriptPlayer {
    pub items: Vec<(u64, PDU)>,
    pub header: PDUHeader,
}
impl ScriptPlayer {
    pub fn header(src_id: u16, dst_id: u16, crc: bool) -> PDUHeader {
        PDUHeader {
            version: U3::One,
            pdu_type: PDUType::FileDirective,
            direction: Direction::ToReceiver,
            transmission_mode: TransmissionMode::Acknowledged,
            crc_flag: if crc { CRCFlag::Present } else { CRCFlag::NotPresent },
            large_file_flag: FileSizeFlag::Small,
            pdu_data_field_length: 0,
            segmentation_control: SegmentationControl::NotPreserved,
            segment_metadata_flag: SegmentedData::NotPresent,
            source_entity_id: VariableID::from(src_id),
            transaction_sequence_number: VariableID::from(7u16),
            destination_entity_id: VariableID::from(dst_id),
        }
    }
}
impl Peer for ScriptPlayer {
    fn start(&mut self, ctx: &mut PeerCtx) {
        for (d, p) in std::mem::take(&mut self.items) {
            ctx.send(1, p, d);
        }
    }
    fn on_pdu(&mut self, _from: Ent, pdu: &PDU, ctx: &mut PeerCtx) {
        if let PDUPayload::Directive(Operations::Finished(f)) = &pdu.payload {
            ctx.send(1, mk_pdu(&self.header, Direction::ToReceiver, PDUPayload::Directive(Operations::Ack(PositiveAcknowledgePDU { directive: PDUDirective::Finished, directive_subtype_code: ACKSubDirective::Finished, condition: f.condition, transaction_status: TransactionStatus::Terminated }))), 0);
        }
    }
    fn on_timer(&mut self, _tag: u32, _ctx: &mut PeerCtx) {}
}
