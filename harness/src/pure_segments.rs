//! C09: the receiver's segment bookkeeping against a set-of-positions reference.
use crate::report::{Meta, Report};
use crate::util::{fnv1a, fnv_mix, run_pool, Rng, J};
use cfdp_daemon::verif::Segments;
use std::panic::{catch_unwind, AssertUnwindSafe};

/// reference over a small universe: bit i set <=> position i covered
fn ref_gaps(mask: u64, start: u64, end: u64) -> Vec<(u64, u64)> {
    let mut out = vec![];
    let mut cur: Option<u64> = None;
    for p in start..end {
        let covered = (mask >> p) & 1 == 1;
        match (covered, cur) {
            (false, None) => cur = Some(p),
            (true, Some(s)) => {
                out.push((s, p));
                cur = None;
            }
            _ => {}
        }
    }
    if let Some(s) = cur {
        out.push((s, end));
    }
    out
}
fn seg_mask(a: u64, b: u64) -> u64 {
    // positions a..b
    let mut m = 0u64;
    for p in a..b {
        m |= 1 << p;
    }
    m
}

fn shape(seq: &[(u64, u64)]) -> String {
    // relation of the last segment to the union of the previous ones, for the finding key
    if seq.is_empty() {
        return "empty".into();
    }
    let (a, b) = seq[seq.len() - 1];
    let mut prev = 0u64;
    for (x, y) in &seq[..seq.len() - 1] {
        prev |= seg_mask(*x, *y);
    }
    let comps = ref_gaps(!prev, 0, 64).len();
    let touched = ref_gaps(!prev, 0, 64)
        .iter()
        .filter(|(x, y)| *x <= b && a <= *y)
        .count();
    let first_start = ref_gaps(!prev, 0, 64).first().map(|g| g.0);
    format!(
        "prev-intervals={},touched={},starts-before-first={}",
        comps.min(3),
        touched.min(3),
        first_start.map(|s| a < s).unwrap_or(false)
    )
}

/// Check the real structure built from `seq` against the reference, all queries over 0..=m.
fn check_prefix(rep: &mut Report, case: &str, seq: &[(u64, u64)], m: u64, full_windows: bool) {
    rep.eval();
    let r = catch_unwind(AssertUnwindSafe(|| {
        let mut s = Segments::new();
        let mut mask = 0u64;
        let mut out: Vec<(String, String, String)> = vec![];
        let mut total = 0u64;
        for (idx, (a, b)) in seq.iter().enumerate() {
            let before = mask;
            mask |= seg_mask(*a, *b);
            let newly = (mask & !before).count_ones() as u64;
            let got = s.merge((*a, *b));
            total += got;
            if idx == seq.len() - 1 && got != newly {
                out.push((
                    "merge-count".into(),
                    format!("merge:returned-{}", if got > newly { "more" } else { "less" }),
                    format!("merge({},{}) returned {} but {} new positions were covered; sequence {:?}", a, b, got, newly, seq),
                ));
            }
        }
        let _ = total;
        // structure queries
        let comps = ref_gaps(!mask, 0, 64);
        if s.len() != comps.len() {
            out.push((
                "segment-count".into(),
                "len:wrong".into(),
                format!("len()={} but the union has {} maximal intervals; sequence {:?}", s.len(), comps.len(), seq),
            ));
        }
        let ref_end = comps.last().map(|c| c.1);
        if s.end() != ref_end || s.end_or_0() != ref_end.unwrap_or(0) {
            out.push((
                "end".into(),
                "end:wrong".into(),
                format!("end()={:?} but the union ends at {:?}; sequence {:?}", s.end(), ref_end, seq),
            ));
        }
        for n in 0..=m {
            let want = mask == seg_mask(0, n);
            let got = s.is_complete(n);
            if got != want {
                let key = if seq.is_empty() {
                    "is_complete:empty-list".to_string()
                } else if got {
                    format!("is_complete:true-but-{}", if mask & 1 == 0 { "start-missing" } else { "not-complete" })
                } else {
                    "is_complete:false-but-complete".to_string()
                };
                out.push((
                    "is-complete".into(),
                    key,
                    format!("is_complete({}) = {} but union is {:?}; sequence {:?}", n, got, comps, seq),
                ));
                break;
            }
        }
        for st in 0..=m {
            for en in st..=m {
                if !full_windows && (st + en) % 3 != 0 {
                    continue;
                }
                let want = ref_gaps(mask, st, en);
                let got = s.gaps(st, en);
                if got != want {
                    let inverted = got.iter().any(|(x, y)| x > y);
                    let empty = got.iter().any(|(x, y)| x == y);
                    let key = if inverted {
                        "gaps:inverted-range"
                    } else if empty {
                        "gaps:empty-range"
                    } else if got.len() < want.len() {
                        "gaps:missing-gap"
                    } else {
                        "gaps:wrong"
                    };
                    out.push((
                        "gaps".into(),
                        key.into(),
                        format!("gaps({},{}) = {:?}, expected {:?}; union {:?}; sequence {:?}", st, en, got, want, comps, seq),
                    ));
                    return out;
                }
            }
        }
        out
    }));
    match r {
        Err(_) => rep.violate(
            "segments-panic",
            format!("panic:{}", shape(seq)),
            case,
            format!("Segments panicked on sequence {:?}", seq),
        ),
        Ok(v) => {
            for (oracle, key, detail) in v {
                let key = if oracle == "merge-count" { format!("{}:{}", key, shape(seq)) } else { key };
                rep.violate(&oracle, key, case, detail);
            }
        }
    }
}

fn all_segments(m: u64) -> Vec<(u64, u64)> {
    let mut v = vec![];
    for a in 0..m {
        for b in a + 1..=m {
            v.push((a, b));
        }
    }
    v
}

fn dfs(rep: &mut Report, case: &str, segs: &[(u64, u64)], seq: &mut Vec<(u64, u64)>, depth: usize, m: u64) {
    check_prefix(rep, case, seq, m, true);
    if seq.len() >= 2 {
        rep.nontrivial(fnv1a(format!("{:?}", seq).as_bytes()));
    }
    if depth == 0 {
        return;
    }
    for s in segs {
        seq.push(*s);
        dfs(rep, case, segs, seq, depth - 1, m);
        seq.pop();
    }
}

// ---------- large-offset random walks with an interval-list reference
fn iv_insert(v: &mut Vec<(u64, u64)>, seg: (u64, u64)) -> u64 {
    // returns newly covered
    let (mut a, mut b) = seg;
    let mut covered_before: u64 = 0;
    let mut out = vec![];
    for (x, y) in v.iter() {
        if *y < a || *x > b {
            out.push((*x, *y));
        } else {
            // overlap or touch: merge
            let ox = (*x).max(seg.0);
            let oy = (*y).min(seg.1);
            if oy > ox {
                covered_before += oy - ox;
            }
            a = a.min(*x);
            b = b.max(*y);
        }
    }
    out.push((a, b));
    out.sort();
    *v = out;
    (seg.1 - seg.0) - covered_before
}
fn iv_gaps(v: &[(u64, u64)], start: u64, end: u64) -> Vec<(u64, u64)> {
    let mut out = vec![];
    let mut p = start;
    for (x, y) in v {
        if *y <= p {
            continue;
        }
        if *x >= end {
            break;
        }
        if *x > p {
            out.push((p, (*x).min(end)));
        }
        p = p.max(*y);
        if p >= end {
            break;
        }
    }
    if p < end {
        out.push((p, end));
    }
    out
}

fn random_walk(rep: &mut Report, seed: u64, idx: u64, steps: usize) {
    let case = format!("C09/walk/{}/{}", seed, idx);
    let mut rng = Rng::derive(seed, 9, idx);
    // anchor points make overlaps and adjacency likely even at huge offsets
    let base = match rng.below(4) {
        0 => 0,
        1 => u32::MAX as u64 - 50,
        2 => u64::MAX - 4000,
        _ => rng.next_u64() >> rng.below(40),
    };
    let span = *rng.pick(&[40u64, 200, 3000]);
    let mut refv: Vec<(u64, u64)> = vec![];
    let r = catch_unwind(AssertUnwindSafe(|| {
        let mut s = Segments::new();
        let mut fails = vec![];
        for step in 0..steps {
            let a = base.saturating_add(rng.below(span));
            let len = 1 + rng.below(span / 4 + 1);
            let b = a.saturating_add(len);
            if b <= a {
                continue;
            }
            let want = iv_insert(&mut refv, (a, b));
            let got = s.merge((a, b));
            if got != want {
                fails.push(("merge-count", format!("merge:returned-{}:large-offsets", if got > want { "more" } else { "less" }), format!("step {}: merge({},{}) returned {} expected {}; union {:?}", step, a, b, got, want, refv)));
                break;
            }
            if s.len() != refv.len() || s.end() != refv.last().map(|x| x.1) {
                fails.push(("segment-count", "len:wrong".to_string(), format!("step {}: len {} end {:?} vs union {:?}", step, s.len(), s.end(), refv)));
                break;
            }
            // a few window queries
            for _ in 0..4 {
                let st = base.saturating_add(rng.below(span + 10)).saturating_sub(rng.below(8));
                let en = st.saturating_add(rng.below(span));
                let want = iv_gaps(&refv, st, en);
                let got = s.gaps(st, en);
                if got != want {
                    let inverted = got.iter().any(|(x, y)| x > y);
                    fails.push(("gaps", if inverted { "gaps:inverted-range".to_string() } else if got.iter().any(|(x, y)| x == y) { "gaps:empty-range".to_string() } else { "gaps:wrong".to_string() }, format!("step {}: gaps({},{}) = {:?} expected {:?}; union {:?}", step, st, en, got, want, refv)));
                    return fails;
                }
            }
            let n = refv[0].1;
            let want_c = refv.len() == 1 && refv[0].0 == 0;
            if s.is_complete(n) != want_c {
                fails.push(("is-complete", format!("is_complete:true-but-{}", if refv[0].0 != 0 { "start-missing" } else { "not-complete" }), format!("step {}: is_complete({}) = {} with union {:?}", step, n, s.is_complete(n), refv)));
                break;
            }
        }
        fails
    }));
    rep.eval();
    rep.add("walk-steps", steps as u64);
    rep.nontrivial(fnv_mix(0x77, idx ^ seed));
    match r {
        Err(_) => rep.violate("segments-panic", "panic:large-offsets".into(), &case, format!("panic in random walk base={} span={}", base, span)),
        Ok(f) => {
            for (o, k, d) in f {
                rep.violate(o, k, &case, d);
            }
        }
    }
}

pub fn run_c09(tier: &str, seed: u64, replay: Option<&str>) -> (Meta, Report) {
    std::panic::set_hook(Box::new(|_| {}));
    let thorough = tier == "thorough";
    // (universe, max sequence length)
    let layers: Vec<(u64, usize)> = if thorough { vec![(12, 4), (16, 3)] } else { vec![(8, 4), (12, 3), (16, 2)] };
    let meta = Meta {
        property: "C09",
        level: "exploration",
        rule: format!("bounded-exhaustive: every sequence of segments for (positions, max length) in {:?}, and after every prefix: merge's return value, len/end, is_complete(n) for every n, gaps(s,e) for every window s<=e, all against a bitset union; plus seeded random walks with offsets near 0, 2^32 and 2^64 against an interval-list reference. distinct_nontrivial = distinct sequences of >= 2 segments checked (plus walks)", layers),
        exhaustive: true,
        assumptions: vec!["segments are non-empty ranges (merge asserts start<end, as the receiver only stores non-empty data)".into(), "an empty window (start==end) is expected to have no gaps".into()],
        require: vec![],
        extra: vec![],
    };
    if let Some(case) = replay {
        let mut rep = Report::new();
        let parts: Vec<&str> = case.split('/').collect();
        if parts[1] == "walk" {
            random_walk(&mut rep, parts[2].parse().unwrap(), parts[3].parse().unwrap(), 2000);
        } else {
            // C09/ex/<m>/<depth>/<first index>
            let m: u64 = parts[2].parse().unwrap();
            let d: usize = parts[3].parse().unwrap();
            let f: usize = parts[4].parse().unwrap();
            let segs = all_segments(m);
            let mut seq = vec![segs[f]];
            dfs(&mut rep, case, &segs, &mut seq, d - 1, m);
        }
        return (meta, rep);
    }
    // work units: (layer, first segment) and random walks
    let mut units: Vec<(u64, usize, usize)> = vec![];
    for (m, d) in &layers {
        for f in 0..all_segments(*m).len() {
            units.push((*m, *d, f));
        }
    }
    let n_ex = units.len();
    let walks = if thorough { 4000 } else { 400 };
    let steps = if thorough { 1500 } else { 600 };
    let units2 = units.clone();
    let reps = run_pool(
        n_ex + walks + 1,
        crate::util::n_threads(),
        900,
        |_| Report::new(),
        move |i| {
            if i < n_ex {
                format!("C09/ex/{}/{}/{}", units2[i].0, units2[i].1, units2[i].2)
            } else {
                format!("C09/walk/{}/{}", seed, i - n_ex)
            }
        },
        move |rep, i| {
            if i < n_ex {
                let (m, d, f) = units[i];
                let case = format!("C09/ex/{}/{}/{}", m, d, f);
                let segs = all_segments(m);
                let mut seq = vec![segs[f]];
                dfs(rep, &case, &segs, &mut seq, d - 1, m);
            } else if i == n_ex {
                // the empty list
                check_prefix(rep, "C09/ex/12/1/0", &[], 12, true);
            } else {
                random_walk(rep, seed, (i - n_ex) as u64, steps);
            }
        },
    );
    let mut rep = Report::new();
    for r in reps {
        rep.merge(r);
    }
    rep.sample(J::obj().set("sequence", J::s("[(2,5),(0,3),(7,9)] over 12 positions")).set("checked", J::s("merge returns 3,2,2; len 2; end 9; is_complete(n) false for all n; gaps(0,12)=[(5,7),(9,12)] ...")));
    rep.sample(J::obj().set("walk", J::s(format!("C09/walk/{}/0", seed))).set("steps", J::U(steps as u64)));
    (meta, rep)
}
