//! Counting global allocator: attributes allocation to the single call being observed on this thread.
use std::alloc::{GlobalAlloc, Layout, System};
use std::cell::Cell;

pub struct Counting;

thread_local! {
    static ON: Cell<bool> = const { Cell::new(false) };
    static LIVE: Cell<i64> = const { Cell::new(0) };
    static PEAK: Cell<i64> = const { Cell::new(0) };
    static MAXREQ: Cell<u64> = const { Cell::new(0) };
    static TOTAL: Cell<u64> = const { Cell::new(0) };
}

unsafe impl GlobalAlloc for Counting {
    unsafe fn alloc(&self, l: Layout) -> *mut u8 {
        note_alloc(l.size());
        System.alloc(l)
    }
    unsafe fn alloc_zeroed(&self, l: Layout) -> *mut u8 {
        note_alloc(l.size());
        System.alloc_zeroed(l)
    }
    unsafe fn dealloc(&self, p: *mut u8, l: Layout) {
        note_free(l.size());
        System.dealloc(p, l)
    }
    unsafe fn realloc(&self, p: *mut u8, l: Layout, new: usize) -> *mut u8 {
        note_free(l.size());
        note_alloc(new);
        System.realloc(p, l, new)
    }
}

#[inline]
fn note_alloc(n: usize) {
    let _ = ON.try_with(|on| {
        if on.get() {
            let _ = LIVE.try_with(|live| {
                let v = live.get() + n as i64;
                live.set(v);
                let _ = PEAK.try_with(|p| {
                    if v > p.get() {
                        p.set(v)
                    }
                });
            });
            let _ = MAXREQ.try_with(|m| {
                if n as u64 > m.get() {
                    m.set(n as u64)
                }
            });
            let _ = TOTAL.try_with(|t| t.set(t.get() + n as u64));
        }
    });
}
#[inline]
fn note_free(n: usize) {
    let _ = ON.try_with(|on| {
        if on.get() {
            let _ = LIVE.try_with(|live| live.set(live.get() - n as i64));
        }
    });
}

#[derive(Clone, Copy, Debug, Default)]
pub struct AllocStats {
    pub peak_live: u64,
    pub max_request: u64,
    pub total: u64,
}

/// Run `f` with allocation accounting for the current thread.
pub fn measure<R>(f: impl FnOnce() -> R) -> (R, AllocStats) {
    LIVE.with(|c| c.set(0));
    PEAK.with(|c| c.set(0));
    MAXREQ.with(|c| c.set(0));
    TOTAL.with(|c| c.set(0));
    ON.with(|c| c.set(true));
    let r = f();
    ON.with(|c| c.set(false));
    let st = AllocStats {
        peak_live: PEAK.with(|c| c.get()).max(0) as u64,
        max_request: MAXREQ.with(|c| c.get()),
        total: TOTAL.with(|c| c.get()),
    };
    (r, st)
}
