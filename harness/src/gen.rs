//! Generators of well-formed protocol values (within the wire format's own limits).
use crate::util::Rng;
use camino::Utf8PathBuf;
use cfdp_core::filestore::ChecksumType;
use cfdp_core::pdu::*;

pub const ALL_CONDITIONS: [Condition; 14] = [
    Condition::NoError,
    Condition::PositiveLimitReached,
    Condition::KeepAliveLimitReached,
    Condition::InvalidTransmissionMode,
    Condition::FileStoreRejection,
    Condition::FileChecksumFailure,
    Condition::FilesizeError,
    Condition::NakLimitReached,
    Condition::InactivityDetected,
    Condition::InvalidFileStructure,
    Condition::CheckLimitReached,
    Condition::UnsupportedChecksumType,
    Condition::SuspendReceived,
    Condition::CancelReceived,
];
pub const ALL_DELIVERY: [DeliveryCode; 2] = [DeliveryCode::Complete, DeliveryCode::Incomplete];
pub const ALL_FILE_STATUS: [FileStatusCode; 4] = [
    FileStatusCode::Discarded,
    FileStatusCode::FileStoreRejection,
    FileStatusCode::Retained,
    FileStatusCode::Unreported,
];
pub const ALL_TX_STATUS: [TransactionStatus; 4] = [
    TransactionStatus::Undefined,
    TransactionStatus::Active,
    TransactionStatus::Terminated,
    TransactionStatus::Unrecognized,
];
pub const WIDTHS: [u8; 4] = [1, 2, 4, 8];

pub fn all_filestore_status() -> Vec<FileStoreStatus> {
    use FileStoreStatus as S;
    vec![
        S::CreateFile(CreateFileStatus::Successful),
        S::CreateFile(CreateFileStatus::NotAllowed),
        S::CreateFile(CreateFileStatus::NotPerformed),
        S::DeleteFile(DeleteFileStatus::Successful),
        S::DeleteFile(DeleteFileStatus::FileDoesNotExist),
        S::DeleteFile(DeleteFileStatus::DeleteNotAllowed),
        S::DeleteFile(DeleteFileStatus::NotPerformed),
        S::RenameFile(RenameStatus::Successful),
        S::RenameFile(RenameStatus::OldFilenameDoesNotExist),
        S::RenameFile(RenameStatus::NewFilenameAlreadyExists),
        S::RenameFile(RenameStatus::RenameNotAllowed),
        S::RenameFile(RenameStatus::NotPerformed),
        S::AppendFile(AppendStatus::Successful),
        S::AppendFile(AppendStatus::Filename1DoesNotExist),
        S::AppendFile(AppendStatus::Filename2DoesNotExist),
        S::AppendFile(AppendStatus::NotAllowed),
        S::AppendFile(AppendStatus::NotPerformed),
        S::ReplaceFile(ReplaceStatus::Successful),
        S::ReplaceFile(ReplaceStatus::Filename1DoesNotExist),
        S::ReplaceFile(ReplaceStatus::Filename2DoesNotExist),
        S::ReplaceFile(ReplaceStatus::NotAllowed),
        S::ReplaceFile(ReplaceStatus::NotPerformed),
        S::CreateDirectory(CreateDirectoryStatus::Successful),
        S::CreateDirectory(CreateDirectoryStatus::DirectoryCannotBeCreated),
        S::CreateDirectory(CreateDirectoryStatus::NotPerformed),
        S::RemoveDirectory(RemoveDirectoryStatus::Successful),
        S::RemoveDirectory(RemoveDirectoryStatus::DirectoryDoesNotExist),
        S::RemoveDirectory(RemoveDirectoryStatus::DeleteNotAllowed),
        S::RemoveDirectory(RemoveDirectoryStatus::NotPerformed),
        S::DenyFile(DenyStatus::Successful),
        S::DenyFile(DenyStatus::NotAllowed),
        S::DenyFile(DenyStatus::NotPerformed),
        S::DenyDirectory(DenyStatus::Successful),
        S::DenyDirectory(DenyStatus::NotAllowed),
        S::DenyDirectory(DenyStatus::NotPerformed),
    ]
}
pub fn all_actions() -> Vec<FileStoreAction> {
    vec![
        FileStoreAction::CreateFile,
        FileStoreAction::DeleteFile,
        FileStoreAction::RenameFile,
        FileStoreAction::AppendFile,
        FileStoreAction::ReplaceFile,
        FileStoreAction::CreateDirectory,
        FileStoreAction::RemoveDirectory,
        FileStoreAction::DenyFile,
        FileStoreAction::DenyDirectory,
    ]
}

pub fn id_of_width(rng: &mut Rng, w: u8) -> VariableID {
    // boundary-biased value
    let raw = match rng.below(6) {
        0 => 0,
        1 => 1,
        2 => u64::MAX,
        3 => 0x80,
        _ => rng.next_u64(),
    };
    match w {
        1 => VariableID::U8(raw as u8),
        2 => VariableID::U16(raw as u16),
        4 => VariableID::U32(raw as u32),
        _ => VariableID::U64(raw),
    }
}
pub fn any_id(rng: &mut Rng) -> VariableID {
    let w = *rng.pick(&WIDTHS);
    id_of_width(rng, w)
}

/// A length in 0..=max biased to the boundaries.
pub fn blen(rng: &mut Rng, max: usize) -> usize {
    match rng.below(10) {
        0 => 0,
        1 => 1.min(max),
        2 => max,
        3 => max.saturating_sub(1),
        4 | 5 => rng.usize(max.min(8) + 1),
        _ => rng.usize(max + 1),
    }
}
pub fn bytes_upto(rng: &mut Rng, max: usize) -> Vec<u8> {
    let n = blen(rng, max);
    match rng.below(4) {
        0 => vec![0u8; n],
        1 => vec![0xffu8; n],
        _ => rng.bytes(n),
    }
}
/// A UTF-8 string of at most `max` bytes.
pub fn string_upto(rng: &mut Rng, max: usize) -> String {
    let target = blen(rng, max);
    let mut s = String::new();
    let alphabet: [&str; 14] = [
        "a", "b", "/", ".", "..", "_", "0", " ", "é", "ß", "漢", "😀", "x", "-",
    ];
    loop {
        let c = if rng.chance(3, 4) {
            let ch = (b'a' + rng.below(26) as u8) as char;
            ch.to_string()
        } else {
            rng.pick(&alphabet).to_string()
        };
        if s.len() + c.len() > target {
            break;
        }
        s.push_str(&c);
    }
    // pad with ascii to hit the exact target length (boundary cases)
    while s.len() < target {
        s.push('z');
    }
    s
}
pub fn path_upto(rng: &mut Rng, max: usize) -> Utf8PathBuf {
    Utf8PathBuf::from(string_upto(rng, max))
}

pub fn gen_fs_request(rng: &mut Rng, budget: usize) -> FileStoreRequest {
    let a = blen(rng, budget.min(255));
    let b = blen(rng, (budget - a).min(255));
    let acts = all_actions();
    FileStoreRequest {
        action_code: rng.pick(&acts).clone(),
        first_filename: Utf8PathBuf::from(exact_string(rng, a)),
        second_filename: Utf8PathBuf::from(exact_string(rng, b)),
    }
}
fn exact_string(rng: &mut Rng, n: usize) -> String {
    let mut s = String::new();
    while s.len() < n {
        let c = if rng.chance(1, 6) && s.len() + 4 <= n {
            *rng.pick(&["é", "漢", "😀", "/"])
        } else {
            "q"
        };
        if s.len() + c.len() <= n {
            s.push_str(c);
        }
    }
    s
}
pub fn gen_fs_response(rng: &mut Rng, status: FileStoreStatus, budget: usize) -> FileStoreResponse {
    let a = blen(rng, budget.min(255));
    let b = blen(rng, (budget - a).min(255));
    let c = blen(rng, (budget - a - b).min(255));
    FileStoreResponse {
        action_and_status: status,
        first_filename: Utf8PathBuf::from(exact_string(rng, a)),
        second_filename: Utf8PathBuf::from(exact_string(rng, b)),
        filestore_message: rng.bytes(c),
    }
}

pub fn handler_codes() -> Vec<HandlerCode> {
    vec![
        HandlerCode::NoticeOfCancellation,
        HandlerCode::NoticeOfSuspension,
        HandlerCode::IgnoreError,
        HandlerCode::AbandonTransaction,
    ]
}

pub fn gen_metadata_tlv(rng: &mut Rng, which: u64) -> MetadataTLV {
    match which % 6 {
        0 => MetadataTLV::FileStoreRequest(gen_fs_request(rng, 300)),
        1 => {
            let st = all_filestore_status();
            let s = *rng.pick(&st);
            MetadataTLV::FileStoreResponse(gen_fs_response(rng, s, 400))
        }
        2 => MetadataTLV::MessageToUser(MessageToUser {
            message_text: bytes_upto(rng, 255),
        }),
        3 => MetadataTLV::FaultHandlerOverride(FaultHandlerOverride {
            fault_handler_code: rng.pick(&handler_codes()).clone(),
        }),
        4 => MetadataTLV::FlowLabel(FlowLabel {
            value: bytes_upto(rng, 255),
        }),
        _ => MetadataTLV::EntityID(any_id(rng)),
    }
}

fn size_for(rng: &mut Rng, flag: FileSizeFlag) -> u64 {
    let raw = match rng.below(7) {
        0 => 0,
        1 => 1,
        2 => u32::MAX as u64,
        3 => u64::MAX,
        4 => (u32::MAX as u64) + 1,
        _ => rng.next_u64() >> rng.below(64),
    };
    match flag {
        FileSizeFlag::Small => raw & 0xffff_ffff,
        FileSizeFlag::Large => raw,
    }
}

pub fn gen_eof(rng: &mut Rng, flag: FileSizeFlag, cond: Condition) -> EndOfFile {
    EndOfFile {
        condition: cond,
        checksum: rng.next_u64() as u32,
        file_size: size_for(rng, flag),
        fault_location: if cond == Condition::NoError {
            None
        } else {
            Some(any_id(rng))
        },
    }
}
pub fn gen_finished(
    rng: &mut Rng,
    cond: Condition,
    dc: DeliveryCode,
    fs: FileStatusCode,
    nresp: usize,
) -> Finished {
    let st = all_filestore_status();
    let mut resp = vec![];
    for _ in 0..nresp {
        let s = *rng.pick(&st);
        // whole TLV value <= 255 bytes: 1 status + 3 length bytes + names/message <= 251
        resp.push(gen_fs_response(rng, s, 251));
    }
    Finished {
        condition: cond,
        delivery_code: dc,
        file_status: fs,
        filestore_response: resp,
        fault_location: if cond == Condition::NoError {
            None
        } else {
            Some(any_id(rng))
        },
    }
}
pub fn gen_ack(rng: &mut Rng, cond: Condition, st: TransactionStatus) -> PositiveAcknowledgePDU {
    if rng.bool() {
        PositiveAcknowledgePDU {
            directive: PDUDirective::EoF,
            directive_subtype_code: ACKSubDirective::Other,
            condition: cond,
            transaction_status: st,
        }
    } else {
        PositiveAcknowledgePDU {
            directive: PDUDirective::Finished,
            directive_subtype_code: ACKSubDirective::Finished,
            condition: cond,
            transaction_status: st,
        }
    }
}
pub fn gen_metadata(rng: &mut Rng, flag: FileSizeFlag, nopts: usize) -> MetadataPDU {
    let mut options = vec![];
    for _ in 0..nopts {
        let w = rng.next_u64();
        options.push(gen_metadata_tlv(rng, w));
    }
    MetadataPDU {
        closure_requested: rng.bool(),
        checksum_type: if rng.bool() {
            ChecksumType::Modular
        } else {
            ChecksumType::Null
        },
        file_size: size_for(rng, flag),
        source_filename: path_upto(rng, 255),
        destination_filename: path_upto(rng, 255),
        options,
    }
}
pub fn gen_nak(rng: &mut Rng, flag: FileSizeFlag, n: usize) -> NegativeAcknowledgmentPDU {
    NegativeAcknowledgmentPDU {
        start_of_scope: size_for(rng, flag),
        end_of_scope: size_for(rng, flag),
        segment_requests: (0..n)
            .map(|_| SegmentRequestForm {
                start_offset: size_for(rng, flag),
                end_offset: size_for(rng, flag),
            })
            .collect(),
    }
}
pub fn gen_filedata(rng: &mut Rng, flag: FileSizeFlag, seg: SegmentedData, maxdata: usize) -> FileDataPDU {
    let data = bytes_upto(rng, maxdata);
    match seg {
        SegmentedData::NotPresent => FileDataPDU::Unsegmented(UnsegmentedFileData {
            offset: size_for(rng, flag),
            file_data: data,
        }),
        SegmentedData::Present => FileDataPDU::Segmented(SegmentedFileData {
            record_continuation_state: match rng.below(4) {
                0 => RecordContinuationState::First,
                1 => RecordContinuationState::Last,
                2 => RecordContinuationState::Unsegmented,
                _ => RecordContinuationState::Interim,
            },
            segment_metadata: bytes_upto(rng, 63),
            offset: size_for(rng, flag),
            file_data: data,
        }),
    }
}

pub const N_OP_KINDS: u64 = 7;
pub fn op_kind_name(k: u64) -> &'static str {
    match k % N_OP_KINDS {
        0 => "EoF",
        1 => "Finished",
        2 => "Ack",
        3 => "Metadata",
        4 => "Nak",
        5 => "Prompt",
        _ => "KeepAlive",
    }
}
pub fn gen_operation(rng: &mut Rng, flag: FileSizeFlag, kind: u64) -> Operations {
    let cond = *rng.pick(&ALL_CONDITIONS);
    match kind % N_OP_KINDS {
        0 => Operations::EoF(gen_eof(rng, flag, cond)),
        1 => {
            let n = rng.usize(4);
            let dc = *rng.pick(&ALL_DELIVERY);
            let fs = *rng.pick(&ALL_FILE_STATUS);
            Operations::Finished(gen_finished(rng, cond, dc, fs, n))
        }
        2 => {
            let st = *rng.pick(&ALL_TX_STATUS);
            Operations::Ack(gen_ack(rng, cond, st))
        }
        3 => {
            let n = rng.usize(5);
            Operations::Metadata(gen_metadata(rng, flag, n))
        }
        4 => {
            let n = blen(rng, 40);
            Operations::Nak(gen_nak(rng, flag, n))
        }
        5 => Operations::Prompt(PromptPDU {
            nak_or_keep_alive: if rng.bool() {
                NakOrKeepAlive::Nak
            } else {
                NakOrKeepAlive::KeepAlive
            },
        }),
        _ => Operations::KeepAlive(KeepAlivePDU {
            progress: size_for(rng, flag),
        }),
    }
}

#[derive(Clone, Copy, Debug)]
pub struct HeaderBits {
    pub version: u8,
    pub file_data: bool,
    pub to_sender: bool,
    pub unack: bool,
    pub crc: bool,
    pub large: bool,
    pub seg_ctrl: bool,
    pub seg_meta: bool,
    pub id_w: u8,
    pub seq_w: u8,
}
pub const N_HEADER_COMBOS: u64 = 8 * 128 * 16;
pub fn header_bits(i: u64) -> HeaderBits {
    let i = i % N_HEADER_COMBOS;
    HeaderBits {
        version: (i & 7) as u8,
        file_data: (i >> 3) & 1 == 1,
        to_sender: (i >> 4) & 1 == 1,
        unack: (i >> 5) & 1 == 1,
        crc: (i >> 6) & 1 == 1,
        large: (i >> 7) & 1 == 1,
        seg_ctrl: (i >> 8) & 1 == 1,
        seg_meta: (i >> 9) & 1 == 1,
        id_w: WIDTHS[((i >> 10) & 3) as usize],
        seq_w: WIDTHS[((i >> 12) & 3) as usize],
    }
}
fn u3(v: u8) -> U3 {
    match v & 7 {
        0 => U3::Zero,
        1 => U3::One,
        2 => U3::Two,
        3 => U3::Three,
        4 => U3::Four,
        5 => U3::Five,
        6 => U3::Six,
        _ => U3::Seven,
    }
}
pub fn header_from_bits(rng: &mut Rng, b: HeaderBits, data_len: u16) -> PDUHeader {
    PDUHeader {
        version: u3(b.version),
        pdu_type: if b.file_data {
            PDUType::FileData
        } else {
            PDUType::FileDirective
        },
        direction: if b.to_sender {
            Direction::ToSender
        } else {
            Direction::ToReceiver
        },
        transmission_mode: if b.unack {
            TransmissionMode::Unacknowledged
        } else {
            TransmissionMode::Acknowledged
        },
        crc_flag: if b.crc {
            CRCFlag::Present
        } else {
            CRCFlag::NotPresent
        },
        large_file_flag: if b.large {
            FileSizeFlag::Large
        } else {
            FileSizeFlag::Small
        },
        pdu_data_field_length: data_len,
        segmentation_control: if b.seg_ctrl {
            SegmentationControl::Preserved
        } else {
            SegmentationControl::NotPreserved
        },
        segment_metadata_flag: if b.seg_meta {
            SegmentedData::Present
        } else {
            SegmentedData::NotPresent
        },
        source_entity_id: id_of_width(rng, b.id_w),
        transaction_sequence_number: id_of_width(rng, b.seq_w),
        destination_entity_id: id_of_width(rng, b.id_w),
    }
}

/// A whole well-formed PDU for header combination `bits`; `kind` selects the directive.
pub fn gen_pdu(rng: &mut Rng, bits: HeaderBits, kind: u64, maxdata: usize) -> PDU {
    let flag = if bits.large {
        FileSizeFlag::Large
    } else {
        FileSizeFlag::Small
    };
    let payload = if bits.file_data {
        let seg = if bits.seg_meta {
            SegmentedData::Present
        } else {
            SegmentedData::NotPresent
        };
        PDUPayload::FileData(gen_filedata(rng, flag, seg, maxdata))
    } else {
        PDUPayload::Directive(gen_operation(rng, flag, kind))
    };
    let len = payload.encoded_len(flag);
    let header = header_from_bits(rng, bits, len);
    PDU { header, payload }
}

// ---- user operations --------------------------------------------------------------------

pub const N_USEROP_KINDS: u64 = 26;
pub fn userop_kind_name(k: u64) -> &'static str {
    [
        "OriginatingTransactionID",
        "ProxyPutRequest",
        "ProxyMessageToUser",
        "ProxyFileStoreRequest",
        "ProxyFaultHandlerOverride",
        "ProxyTransmissionMode",
        "ProxyFlowLabel",
        "ProxySegmentationControl",
        "ProxyPutCancel",
        "ProxyPutResponse",
        "ProxyFileStoreResponse",
        "DirectoryListingResponse",
        "RemoteStatusReportResponse",
        "RemoteResumeResponse",
        "RemoteSuspendResponse",
        "DirectoryListingRequest",
        "RemoteStatusReportRequest",
        "RemoteSuspendRequest",
        "RemoteResumeRequest",
        "SFORequest",
        "SFOMessageToUser",
        "SFOFlowLabel",
        "SFOFaultHandlerOverride",
        "SFOFileStoreRequest",
        "SFOFileStoreResponse",
        "SFOReport",
    ][(k % N_USEROP_KINDS) as usize]
}

fn lv(out: &mut Vec<u8>, b: &[u8]) {
    out.push(b.len() as u8);
    out.extend_from_slice(b);
}

/// Well-formed wire bytes of the three message kinds whose fields are private.
pub fn private_userop_bytes(rng: &mut Rng, kind: u64) -> Vec<u8> {
    let mut out = b"cfdp".to_vec();
    match userop_kind_name(kind) {
        "ProxySegmentationControl" => {
            out.push(MessageType::ProxySegmentationControl as u8);
            out.push(rng.below(2) as u8);
        }
        "SFORequest" => {
            out.push(MessageType::SFORequest as u8);
            let first = ((rng.below(4) as u8) << 6)
                | ((rng.below(2) as u8) << 5)
                | ((rng.below(2) as u8) << 4)
                | ((rng.below(2) as u8) << 3);
            out.push(first);
            out.push(rng.byte());
            let label = bytes_upto(rng, 255);
            lv(&mut out, &label);
            let a = any_id(rng);
            lv(&mut out, &a.to_be_bytes());
            let b = any_id(rng);
            lv(&mut out, &b.to_be_bytes());
            lv(&mut out, string_upto(rng, 255).as_bytes());
            lv(&mut out, string_upto(rng, 255).as_bytes());
        }
        _ => {
            out.push(MessageType::SFOReport as u8);
            let label = bytes_upto(rng, 255);
            lv(&mut out, &label);
            for _ in 0..3 {
                let a = any_id(rng);
                lv(&mut out, &a.to_be_bytes());
            }
            out.push(rng.byte());
            out.push(rng.byte());
            let cond = *rng.pick(&ALL_CONDITIONS) as u8;
            out.push((cond << 4) | (rng.below(16) as u8));
        }
    }
    out
}

/// `None` for the kinds that can only be produced by decoding (`private_userop_bytes`).
pub fn gen_userop(rng: &mut Rng, kind: u64, idw: u8, seqw: u8) -> Option<UserOperation> {
    let src = id_of_width(rng, idw);
    let seq = id_of_width(rng, seqw);
    let st = *rng.pick(&ALL_TX_STATUS);
    let cond = *rng.pick(&ALL_CONDITIONS);
    Some(match userop_kind_name(kind) {
        "OriginatingTransactionID" => {
            UserOperation::OriginatingTransactionIDMessage(OriginatingTransactionIDMessage {
                source_entity_id: src,
                transaction_sequence_number: seq,
            })
        }
        "ProxyPutRequest" => {
            UserOperation::ProxyOperation(ProxyOperation::ProxyPutRequest(ProxyPutRequest {
                destination_entity_id: src,
                source_filename: path_upto(rng, 255),
                destination_filename: path_upto(rng, 255),
            }))
        }
        "ProxyMessageToUser" => {
            UserOperation::ProxyOperation(ProxyOperation::ProxyMessageToUser(MessageToUser {
                message_text: bytes_upto(rng, 255),
            }))
        }
        "ProxyFileStoreRequest" => UserOperation::ProxyOperation(
            ProxyOperation::ProxyFileStoreRequest(gen_fs_request(rng, 252)),
        ),
        "ProxyFaultHandlerOverride" => UserOperation::ProxyOperation(
            ProxyOperation::ProxyFaultHandlerOverride(FaultHandlerOverride {
                fault_handler_code: rng.pick(&handler_codes()).clone(),
            }),
        ),
        "ProxyTransmissionMode" => {
            UserOperation::ProxyOperation(ProxyOperation::ProxyTransmissionMode(if rng.bool() {
                TransmissionMode::Acknowledged
            } else {
                TransmissionMode::Unacknowledged
            }))
        }
        "ProxyFlowLabel" => UserOperation::ProxyOperation(ProxyOperation::ProxyFlowLabel(FlowLabel {
            value: bytes_upto(rng, 255),
        })),
        "ProxyPutCancel" => UserOperation::ProxyOperation(ProxyOperation::ProxyPutCancel),
        "ProxyPutResponse" => UserOperation::Response(UserResponse::ProxyPut(ProxyPutResponse {
            condition: cond,
            delivery_code: *rng.pick(&ALL_DELIVERY),
            file_status: *rng.pick(&ALL_FILE_STATUS),
        })),
        "ProxyFileStoreResponse" => {
            let all = all_filestore_status();
            let s = *rng.pick(&all);
            UserOperation::Response(UserResponse::ProxyFileStore(gen_fs_response(rng, s, 251)))
        }
        "DirectoryListingResponse" => {
            UserOperation::Response(UserResponse::DirectoryListing(DirectoryListingResponse {
                response_code: if rng.bool() {
                    ListingResponseCode::Successful
                } else {
                    ListingResponseCode::Unsuccessful
                },
                directory_name: path_upto(rng, 255),
                directory_filename: path_upto(rng, 255),
            }))
        }
        "RemoteStatusReportResponse" => {
            UserOperation::Response(UserResponse::RemoteStatusReport(RemoteStatusReportResponse {
                transaction_status: st,
                response_code: rng.bool(),
                source_entity_id: src,
                transaction_sequence_number: seq,
            }))
        }
        "RemoteResumeResponse" => {
            UserOperation::Response(UserResponse::RemoteResume(RemoteResumeResponse {
                suspend_indication: rng.bool(),
                transaction_status: st,
                source_entity_id: src,
                transaction_sequence_number: seq,
            }))
        }
        "RemoteSuspendResponse" => {
            UserOperation::Response(UserResponse::RemoteSuspend(RemoteSuspendResponse {
                suspend_indication: rng.bool(),
                transaction_status: st,
                source_entity_id: src,
                transaction_sequence_number: seq,
            }))
        }
        "DirectoryListingRequest" => {
            UserOperation::Request(UserRequest::DirectoryListing(DirectoryListingRequest {
                directory_name: path_upto(rng, 255),
                directory_filename: path_upto(rng, 255),
            }))
        }
        "RemoteStatusReportRequest" => {
            UserOperation::Request(UserRequest::RemoteStatusReport(RemoteStatusReportRequest {
                source_entity_id: src,
                transaction_sequence_number: seq,
                report_filename: path_upto(rng, 255),
            }))
        }
        "RemoteSuspendRequest" => {
            UserOperation::Request(UserRequest::RemoteSuspend(RemoteSuspendRequest {
                source_entity_id: src,
                transaction_sequence_number: seq,
            }))
        }
        "RemoteResumeRequest" => {
            UserOperation::Request(UserRequest::RemoteResume(RemoteResumeRequest {
                source_entity_id: src,
                transaction_sequence_number: seq,
            }))
        }
        "SFOMessageToUser" => UserOperation::SFOMessageToUser(MessageToUser {
            message_text: bytes_upto(rng, 255),
        }),
        "SFOFlowLabel" => UserOperation::SFOFlowLabel(FlowLabel {
            value: bytes_upto(rng, 255),
        }),
        "SFOFaultHandlerOverride" => UserOperation::SFOFaultHandlerOverride(FaultHandlerOverride {
            fault_handler_code: rng.pick(&handler_codes()).clone(),
        }),
        "SFOFileStoreRequest" => UserOperation::SFOFileStoreRequest(gen_fs_request(rng, 252)),
        "SFOFileStoreResponse" => {
            let all = all_filestore_status();
            let s = *rng.pick(&all);
            UserOperation::SFOFileStoreResponse(gen_fs_response(rng, s, 251))
        }
        _ => return None,
    })
}

/// One representative PDU of every payload kind (C15/C16 corpus), for the given flags.
pub fn corpus(rng: &mut Rng, crc: bool) -> Vec<(String, PDU)> {
    let mut out = vec![];
    for large in [false, true] {
        for (idw, seqw) in [(1u8, 1u8), (2, 4), (8, 2), (4, 8)] {
            for kind in 0..N_OP_KINDS + 2 {
                let bits = HeaderBits {
                    version: 1,
                    file_data: kind >= N_OP_KINDS,
                    to_sender: matches!(kind, 1 | 2 | 4 | 6),
                    unack: false,
                    crc,
                    large,
                    seg_ctrl: false,
                    seg_meta: kind == N_OP_KINDS + 1,
                    id_w: idw,
                    seq_w: seqw,
                };
                let pdu = gen_pdu(rng, bits, kind, 48);
                let name = if kind >= N_OP_KINDS {
                    if bits.seg_meta {
                        "FileDataSeg"
                    } else {
                        "FileData"
                    }
                } else {
                    op_kind_name(kind)
                };
                out.push((
                    format!(
                        "{}/{}/id{}seq{}",
                        name,
                        if large { "large" } else { "small" },
                        idw,
                        seqw
                    ),
                    pdu,
                ));
            }
        }
    }
    out
}
