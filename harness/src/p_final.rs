//! C04 (completed delivery is final), C10 (cancel), C13b (filestore requests end to end),
//! C17b (limit faults on time, handler actions).
use crate::e1::*;
use crate::fs::{model_apply, Model, Node};
use crate::p_proto::parse_case;
use crate::report::{Meta, Report};
use crate::sim::*;
use crate::simgen::*;
use crate::util::{Rng, J};
use camino::Utf8PathBuf;
use cfdp_core::daemon::Indication;
use cfdp_core::pdu::*;
use cfdp_daemon::verif::TaskKind;

fn ack() -> TransmissionMode {
    TransmissionMode::Acknowledged
}
fn unack() -> TransmissionMode {
    TransmissionMode::Unacknowledged
}
fn req(a: FileStoreAction, f1: &str, f2: &str) -> FileStoreRequest {
    FileStoreRequest { action_code: a, first_filename: Utf8PathBuf::from(f1), second_filename: Utf8PathBuf::from(f2) }
}

// ===================================================================================== C04

const C04_SIZES: [usize; 4] = [40, 70, 96, 0];

/// (size idx (3 = filestore-only transaction), nak idx 0/2, withheld ACK(Fin) count, lose first ACK(EOF), lose first Finished, redeliveries [(from entity, emission idx, delay ms)])
type C04Spec = (usize, usize, usize, bool, bool, Vec<(Ent, usize, u64)>);

fn c04_space() -> Vec<C04Spec> {
    let mut v: Vec<C04Spec> = vec![];
    for si in 0..4 {
        let n0 = if si == 3 { 2 } else { first_pass_len(C04_SIZES[si], 32) };
        // nak index 4 stands for unacknowledged mode with closure (the receiver stays open until its ACK limit)
        for nak in [0usize, 2, 4] {
            for w in [1usize, 2] {
                for (la, lf) in [(false, false), (true, false), (false, true), (true, true)] {
                    if nak == 2 && (la || lf) && w == 2 {
                        continue;
                    }
                    if nak == 4 && (w == 2 || la) {
                        continue;
                    }
                    // singles from the sender's first pass, early and late in the window
                    for i in 0..n0 {
                        v.push((si, nak, w, la, lf, vec![(0, i, 1)]));
                        v.push((si, nak, w, la, lf, vec![(0, i, 1500)]));
                    }
                    // ordered pairs (including the same PDU twice)
                    for i in 0..n0 {
                        for j in 0..n0 {
                            v.push((si, nak, w, la, lf, vec![(0, i, 1), (0, j, 3)]));
                        }
                    }
                    // PDUs of the receiver re-delivered to the sender
                    for i in 0..3 {
                        v.push((si, nak, w, la, lf, vec![(1, i, 2)]));
                    }
                }
            }
        }
    }
    v
}

fn c04_limit_space() -> Vec<(usize, usize, bool, usize, u64)> {
    let mut v = vec![];
    for si in 0..4 {
        let n0 = if si == 3 { 2 } else { first_pass_len(C04_SIZES[si], 32) };
        for nak in [0usize, 2, 4] {
            for lf_all in [false, true] {
                for i in 0..n0 {
                    for delay in [1u64, 300, 700, 950, 1600, 3100] {
                        v.push((si, nak, lf_all, i, delay));
                    }
                }
            }
        }
    }
    v
}

fn c04_build(case: &str, seed: u64, spec: &C04Spec, idx: usize) -> Case {
    let (si, nak, w, la, lf, red) = spec.clone();
    let mut k = Knobs::base();
    k.seg = 32;
    if nak == 4 {
        k.mode = unack();
        k.closure = true;
    } else {
        k.nak = nak_procs()[nak];
    }
    let mut rng = Rng::derive(seed, 401, idx as u64);
    let c = content(&mut rng, C04_SIZES[si], idx as u64 % 5, 32, 0xC04);
    let mut sc = two_party(case, seed ^ idx as u64, &k, c);
    if si == 3 {
        // filestore-request-only transaction: the appended file is planted at the receiver
        sc.transfers[0].src_name = String::new();
        sc.transfers[0].dst_name = String::new();
        sc.plant.push((1, "seed.bin".into(), Some(b"0123456789".to_vec())));
        sc.transfers[0].requests = vec![req(FileStoreAction::AppendFile, "marker0", "seed.bin")];
    } else {
        sc.transfers[0].requests = vec![req(FileStoreAction::AppendFile, "marker0", "dst0.bin")];
    }
    for j in 0..w {
        sc.rules.push(Rule { from: 0, to: 1, m: Matcher::KindNth(Kind::AckFin, j), a: Action::Drop });
    }
    if la {
        sc.rules.push(Rule { from: 1, to: 0, m: Matcher::KindNth(Kind::AckEof, 0), a: Action::Drop });
    }
    if lf {
        sc.rules.push(Rule { from: 1, to: 0, m: Matcher::KindNth(Kind::Finished, 0), a: Action::Drop });
    }
    for (e, i, d) in &red {
        sc.scripts.push(Script { trig: Trigger::AfterInd(1, IndKind::Finished, 0), delay_ms: *d, act: Act::Redeliver(*e, *i) });
    }
    let desc = format!("{} size={} requests=append withheld ACK(Fin) x{} lose ACK(EOF)#0={} lose FIN#0={} re-deliver {:?} after the receiver's Finished indication", k.describe(), if si == 3 { "none(filestore-only)".to_string() } else { C04_SIZES[si].to_string() }, w, la, lf, red);
    Case::from(sc, &k, desc, true)
}

pub fn c04_case(fam: &str, idx: usize, seed: u64) -> Option<Case> {
    let case = format!("C04:{}:{}:{}", fam, idx, seed);
    match fam {
        "sys" => {
            let sp = c04_space();
            Some(c04_build(&case, seed, sp.get(idx)?, idx))
        }
        "ignorecs" => {
            // the receiver is configured to ignore a file checksum failure; one data byte is corrupted in flight
            // (no CRC), the first Finished PDU is lost, and a duplicate of a first-pass PDU reaches the receiver
            // while it waits for the ACK of Finished. Whatever the receiver goes on to say, the sender must not
            // report a success that the receiver never reported.
            let mut rng = Rng::derive(seed, 403, idx as u64);
            let mut k = Knobs::base();
            k.seg = 32;
            k.crc = false;
            k.nak = nak_procs()[rng.usize(4)];
            k.handlers = vec![(Condition::FileChecksumFailure, FaultHandlerAction::Ignore)];
            let size = 32 * (2 + rng.usize(3));
            let c = content(&mut rng, size, 3, 32, 0xC04);
            let mut sc = two_party(&case, rng.next_u64(), &k, c);
            let n0 = first_pass_len(size, 32);
            sc.rules.push(Rule { from: 0, to: 1, m: Matcher::Nth(1 + rng.usize(n0 - 2)), a: Action::Corrupt(12 + rng.usize(8), 0x40) });
            sc.rules.push(Rule { from: 1, to: 0, m: Matcher::KindNth(Kind::Finished, 0), a: Action::Drop });
            if rng.bool() {
                sc.rules.push(Rule { from: 0, to: 1, m: Matcher::KindNth(Kind::AckFin, 0), a: Action::Drop });
            }
            let i = rng.usize(n0);
            let d = *rng.pick(&[0u64, 1, 400, 1500, 2900]);
            sc.scripts.push(Script { trig: Trigger::AfterInd(1, IndKind::Finished, 0), delay_ms: d, act: Act::Redeliver(0, i) });
            let desc = format!("{} handlers={:?} size={} one byte corrupted (no CRC), first FIN lost, re-deliver e0#{} {} ms after the receiver's Finished indication [{}]", k.describe(), k.handlers, size, i, d, rules_desc(&sc.rules));
            Some(Case::from(sc, &k, desc, false))
        }
        "limit" => {
            // ACK(Finished) never arrives (optionally no Finished PDU reaches the sender either): the receiver
            // stays open through its positive-ACK limit, the limit fault and the cancelled state that follows;
            // every first-pass PDU is delivered again at several points after that fault
            let sp = c04_limit_space();
            let (si, nak, lf_all, i, delay) = *sp.get(idx)?;
            let spec: C04Spec = (si, nak, 0, false, false, vec![]);
            let mut cs = c04_build(&case, seed, &spec, idx);
            cs.sc.rules.push(Rule { from: 0, to: 1, m: Matcher::KindAll(Kind::AckFin), a: Action::Drop });
            if lf_all {
                cs.sc.rules.push(Rule { from: 1, to: 0, m: Matcher::KindAll(Kind::Finished), a: Action::Drop });
            }
            cs.sc.scripts.push(Script { trig: Trigger::AfterInd(1, IndKind::Fault, 0), delay_ms: delay, act: Act::Redeliver(0, i) });
            cs.info.desc.push_str(&format!(" :: limit family: every ACK(Fin) lost, every FIN lost={}, re-deliver e0#{} {} ms after the receiver's fault indication", lf_all, i, delay));
            cs.sync();
            Some(cs)
        }
        "rand" => {
            let mut rng = Rng::derive(seed, 402, idx as u64);
            let si = rng.usize(4);
            let n0 = if si == 3 { 2 } else { first_pass_len(C04_SIZES[si], 32) };
            let mut red = vec![];
            for _ in 0..(1 + rng.usize(3)) {
                let e = if rng.chance(3, 4) { 0 } else { 1 };
                red.push((e, rng.usize(if e == 0 { n0 + 2 } else { 4 }), *rng.pick(&[0u64, 1, 2, 5, 400, 1500, 2900, 3100, 5500])));
            }
            let spec: C04Spec = (si, rng.usize(5), 1 + rng.usize(2), rng.bool(), rng.bool(), red);
            let mut cs = c04_build(&case, seed, &spec, idx);
            cs.sc.seed = rng.next_u64();
            // prompts issued by the sending user while the receiver waits
            if rng.bool() {
                let p = if rng.bool() { PrimKind::PromptNak } else { PrimKind::PromptKeepAlive };
                cs.sc.scripts.push(Script { trig: Trigger::AfterInd(1, IndKind::Finished, 0), delay_ms: rng.below(2500), act: Act::Prim(0, p, 0) });
                cs.info.desc.push_str(&format!(" + sender user {:?}", p));
            }
            if rng.chance(1, 3) {
                cs.sc.rules.push(rand_fault(&mut rng, n0 + 3, 5, false));
            }
            cs.sync();
            Some(cs)
        }
        _ => None,
    }
}

pub fn judge_c04(info: &Info, log: &RunLog, rep: &mut Report) {
    let d = Dig::new(log);
    count_observed(rep, log);
    let t = &info.transfers[0];
    let id = match d.id(0) {
        Some(i) => i,
        None => return,
    };
    let w = |head: &str| witness(log, info, head);
    let file_transfer = !t.src_name.is_empty();
    // t0 = first success indication at the receiver
    let is_done = |f: &cfdp_core::daemon::FinishedIndication| f.report.condition == Condition::NoError && f.delivery_code == DeliveryCode::Complete && (f.file_status == FileStatusCode::Retained || !file_transfer);
    let fin_r = d.finished(t.dst, id);
    let t0 = fin_r.iter().find(|x| is_done(x.2)).map(|x| (x.0, x.1));
    // (d) a sender reports success only after its receiver did
    let fin_s = d.finished(t.src, id);
    if let Some(s) = fin_s.iter().find(|x| is_done(x.2)) {
        rep.count("c04_checked:sender-success-after-receiver-success");
        if t0.map(|r| r.0 > s.0).unwrap_or(true) {
            rep.violate("sender-success-without-receiver-success", format!("cfg={}", info.knobs[0].shape()), &info.case, w("the sender reported success but the receiver had not reported a successful delivery"));
        }
    }
    let (t0_idx, t0_t) = match t0 {
        Some(x) => x,
        None => {
            rep.count("c04_runs_without_receiver_success");
            return;
        }
    };
    // the window: until the receive task that reported the success ends (a reordered link can make an
    // earlier incarnation end unsuccessfully before the one that delivers starts)
    let first_span = d.spans(id, TaskKind::Recv).into_iter().filter(|s| s.start_us <= t0_t && s.end_us.map_or(true, |e| e >= t0_t)).last().cloned();
    let mut win_end = first_span.as_ref().and_then(|s| s.end_us).unwrap_or(u64::MAX);
    // A transaction that waits for the ACK of its Finished PDU ends when that ACK arrives or when a limit is
    // declared. If its task vanished for any other reason (an error raised while handling a late PDU), the
    // protocol transaction is still open for the peer: whatever a successor task does with the sender's
    // retransmissions is a consequence of the PDU that reached the open transaction - the window stays open.
    if win_end != u64::MAX && (t.mode == ack() || info.knobs[0].closure) {
        let acked = d.arrivals(t.dst, id).iter().any(|a| a.2 == Kind::AckFin && a.1 <= win_end && a.0 > t0_idx);
        let declared = d.faults(t.dst, id).iter().any(|f| f.1 <= win_end) || d.abandons(t.dst, id).iter().any(|f| f.1 <= win_end);
        let by_user = d.prims(t.dst, 0).iter().any(|p| p.3 && matches!(p.2, PrimKind::Cancel) && p.1 <= win_end);
        if !acked && !declared && !by_user {
            rep.count("c04_receive_task_vanished_in_window");
            win_end = u64::MAX;
        }
    }
    // late PDUs that actually reached the open transaction
    let late: Vec<_> = d.arrivals(t.dst, id).into_iter().filter(|a| a.0 > t0_idx && a.1 <= win_end && a.2 != Kind::AckFin).collect();
    rep.add("c04_late_pdus_delivered_in_window", late.len() as u64);
    let mut late_kinds: Vec<&str> = late.iter().map(|a| kind_short(a.2)).collect();
    late_kinds.sort();
    late_kinds.dedup();
    let shape = format!("cfg={} late={:?}", info.knobs[0].shape(), late_kinds);
    rep.count("c04_windows_judged");
    // (a) the delivered file is unchanged
    if file_transfer {
        let dests = d.dests(0);
        let at_t0 = dests.iter().find(|x| x.0 > t0_idx && x.3 == "at-finished-indication").map(|x| x.2.clone());
        // last observation inside the window
        let last_in = dests.iter().filter(|x| x.1 <= win_end).last().map(|x| x.2.clone());
        if let (Some(a), Some(b)) = (at_t0, last_in) {
            rep.count("c04_checked:file-unchanged");
            if a != b || a.as_deref() != Some(t.content.as_slice()) {
                rep.violate("delivered-file-changed", shape.clone(), &info.case, w("the destination file changed (or differs from the source) after the receiver reported a successful delivery"));
            }
        }
        // any change of the destination inside the window, even a transient one
        for x in dests.iter().filter(|x| x.0 > t0_idx && x.1 <= win_end) {
            if x.2.as_deref() != Some(t.content.as_slice()) {
                rep.violate("delivered-file-changed", format!("{} transient", shape), &info.case, w("the destination file was observed with different content inside the window"));
                break;
            }
        }
    }
    // (b) the filestore requests ran exactly once: marker = "M" + appended file
    if !t.requests.is_empty() {
        let appended: Vec<u8> = if file_transfer { t.content.clone() } else { b"0123456789".to_vec() };
        let mut want = b"M".to_vec();
        want.extend_from_slice(&appended);
        let marks = d.markers(0);
        let last = marks.iter().filter(|x| x.1 <= win_end).last().map(|x| x.2.clone()).flatten();
        rep.count("c04_checked:requests-once");
        if last.as_deref() != Some(want.as_slice()) {
            let n = last.as_ref().map(|l| if appended.is_empty() { 1 } else { (l.len().saturating_sub(1)) / appended.len().max(1) }).unwrap_or(0);
            rep.violate("filestore-requests-not-once", format!("{} executions~{}", shape, n), &info.case, w(&format!("the append request was executed {} times (marker is {:?} bytes, expected {})", n, last.as_ref().map(|l| l.len()), want.len())));
        }
    }
    // (c) no integrity failure for this transaction after t0
    for e in [t.src, t.dst] {
        for (li, _, f) in d.faults(e, id) {
            if li > t0_idx && matches!(f.condition, Condition::FileChecksumFailure | Condition::FilesizeError) {
                rep.violate("integrity-failure-after-success", format!("{} where=fault-indication cond={:?}", shape, f.condition), &info.case, w("a file-integrity fault was declared after the successful delivery"));
            }
        }
        for (li, _, f) in d.finished(e, id) {
            if li > t0_idx && matches!(f.report.condition, Condition::FileChecksumFailure | Condition::FilesizeError) {
                rep.violate("integrity-failure-after-success", format!("{} where=finished-indication cond={:?}", shape, f.report.condition), &info.case, w("a Finished indication carries a file-integrity failure after the successful delivery"));
            }
        }
    }
    for e in d.emits(t.dst, id) {
        if let PDUPayload::Directive(Operations::Finished(f)) = &e.4.payload {
            if e.0 > t0_idx && matches!(f.condition, Condition::FileChecksumFailure | Condition::FilesizeError) {
                rep.violate("integrity-failure-after-success", format!("{} where=finished-pdu cond={:?}", shape, f.condition), &info.case, w("a Finished PDU carries a file-integrity failure after the successful delivery"));
            }
        }
    }
    rep.count("c04_checked:no-integrity-failure");
    // a second success indication is a re-done delivery
    let again = fin_r.iter().filter(|x| x.0 > t0_idx && x.1 <= win_end && is_done(x.2)).count();
    if again > 0 {
        rep.violate("delivery-redone", shape.clone(), &info.case, w("the receiver reported the successful delivery more than once"));
    }
    if !late.is_empty() {
        rep.nontrivial(case_sig(info, log));
        rep.sample(sample_json(log, info, 40));
    }
}

pub fn run_c04(tier: &str, seed: u64, replay: Option<&str>) -> (Meta, Report) {
    let thorough = tier == "thorough";
    let meta = Meta {
        property: "C04",
        level: "fault_enumeration",
        rule: "acknowledged mode (and unacknowledged mode with closure, where the receiver stays open until its ACK limit), files of 2-3 segments and filestore-request-only transactions, every transaction carries a non-idempotent append request; ACK(Finished) is withheld once or twice so that the receiver stays open after its success indication; optional loss of the first ACK(EOF) / first Finished. sys = re-delivery, 1 ms and 1.5 s after the receiver's Finished indication, of EVERY PDU of the sender's first pass (singles), of EVERY ordered pair of them, and of each of the receiver's first three PDUs to the sender (complete). limit = every ACK(Finished) lost (optionally every Finished PDU too): the receiver runs into its positive-ACK limit and the cancelled state behind it, and every first-pass PDU is re-delivered 1 ms .. 3.1 s after that fault (complete). ignorecs = receiver configured to ignore a checksum failure, one byte corrupted without CRC, first Finished lost, a first-pass PDU re-delivered in the window (the sender must not report a success the receiver never reported). rand = 1-3 re-deliveries of any emitted PDU at random delays, prompts from the sending user, an extra dup/delay fault. distinct_nontrivial = distinct (config, size, event-order) signatures among runs where at least one late PDU reached the still-open transaction.".into(),
        exhaustive: true,
        assumptions: vec!["window = from the receiver's first success indication to the end of its (first) transaction task; PDUs arriving after that start a new transaction and are out of scope, as the property says".into()],
        require: vec![("c04_windows_judged".into(), 500), ("c04_late_pdus_delivered_in_window".into(), 500), ("c04_checked:requests-once".into(), 500)],
        extra: vec![],
    };
    if let Some(r) = replay {
        let (_, fam, idx, sd) = parse_case(r);
        return (meta, run_single(c04_case(&fam, idx, sd).expect("case"), judge_c04));
    }
    let n = c04_space().len();
    let stride = if thorough { 1 } else { 2 };
    let off = (seed % stride as u64) as usize;
    let m = (n - off + stride - 1) / stride;
    let mut rep = run_cases(m, "c04-sys", move |i| c04_case("sys", off + i * stride, seed), judge_c04);
    rep.add("cases:sys", m as u64);
    let nl = c04_limit_space().len();
    rep.merge(run_cases(nl, "c04-limit", move |i| c04_case("limit", i, seed), judge_c04));
    rep.add("cases:limit", nl as u64);
    let ni = if thorough { 40_000 } else { 600 };
    rep.merge(run_cases(ni, "c04-ignorecs", move |i| c04_case("ignorecs", i, seed), judge_c04));
    rep.add("cases:ignorecs", ni as u64);
    let nr = if thorough { 400_000 } else { 3_000 };
    rep.merge(run_cases(nr, "c04-rand", move |i| c04_case("rand", i, seed), judge_c04));
    rep.add("cases:rand", nr as u64);
    let mut meta = meta;
    meta.exhaustive = thorough;
    meta.extra.push(("x_sys_space".into(), J::U(n as u64)));
    (meta, rep)
}

// ===================================================================================== C10

const C10_LOSS: [Option<(Ent, Kind, usize)>; 9] = [None, Some((0, Kind::Eof, 0)), Some((0, Kind::Eof, 1)), Some((1, Kind::AckEof, 0)), Some((1, Kind::AckEof, 1)), Some((1, Kind::Finished, 0)), Some((0, Kind::AckFin, 0)), Some((0, Kind::FileData, 1)), Some((0, Kind::FileData, 3))];

/// (who, trigger class 0 emit(e0)/1 arrive(e1)/2 arrive(e0), index, mode idx, nak idx, loss idx, blackout 0 none/1 peer silent after the cancel, size)
type C10Spec = (usize, usize, usize, usize, usize, usize, usize, usize);

fn c10_space() -> Vec<C10Spec> {
    let mut v = vec![];
    for size in [100usize, 0] {
        let n0 = first_pass_len(size, 32);
        for mode in 0..3 {
            for nak in [0usize, 2] {
                if mode != 0 && nak != 0 {
                    continue;
                }
                for who in 0..2 {
                    let mut trigs = vec![];
                    for i in 0..(n0 + 2) {
                        trigs.push((0, i));
                    }
                    for i in 0..n0 {
                        trigs.push((1, i));
                    }
                    for i in 0..3 {
                        trigs.push((2, i));
                    }
                    for (tc, ti) in trigs {
                        for loss in 0..C10_LOSS.len() {
                            v.push((who, tc, ti, mode, nak, loss, 0, size));
                        }
                        v.push((who, tc, ti, mode, nak, 0, 1, size));
                    }
                }
            }
        }
    }
    v
}

pub fn c10_case(fam: &str, idx: usize, seed: u64) -> Option<Case> {
    let case = format!("C10:{}:{}:{}", fam, idx, seed);
    let modes = [(true, false), (false, false), (false, true)];
    match fam {
        "sys" | "rand" => {
            let mut rng = Rng::derive(seed, 1001, idx as u64);
            let (who, tc, ti, mode, nak, loss, black, size) = if fam == "sys" {
                *c10_space().get(idx)?
            } else {
                let size = *rng.pick(&[0usize, 1, 31, 64, 100, 200]);
                (rng.usize(2), rng.usize(3), rng.usize(first_pass_len(size, 32) + 2), rng.usize(3), rng.usize(4), rng.usize(C10_LOSS.len()), if rng.chance(1, 4) { 1 } else { 0 }, size)
            };
            let mut k = Knobs::base();
            k.seg = 32;
            k.mode = if modes[mode].0 { ack() } else { unack() };
            k.closure = modes[mode].1;
            k.nak = nak_procs()[if mode == 0 { nak } else { 0 }];
            let c = content(&mut rng, size, idx as u64 % 5, 32, 0xC10);
            let mut sc = two_party(&case, seed ^ idx as u64, &k, c);
            if idx % 4 == 1 {
                sc.transfers[0].stale_dest = Some(b"an older file under the destination name".to_vec());
            }
            let trig = match tc {
                0 => Trigger::AfterEmit(0, ti),
                1 => Trigger::AfterArrive(1, ti),
                _ => Trigger::AfterArrive(0, ti),
            };
            let delay = if fam == "rand" { rng.below(4) } else { 0 };
            sc.scripts.push(Script { trig: trig.clone(), delay_ms: delay, act: Act::Prim(who, PrimKind::Cancel, 0) });
            if let Some((from, kind, n)) = C10_LOSS[loss] {
                sc.rules.push(Rule { from, to: 1 - from, m: Matcher::KindNth(kind, n), a: Action::Drop });
            }
            if fam == "rand" {
                for _ in 0..rng.usize(3) {
                    sc.rules.push(rand_fault(&mut rng, first_pass_len(size, 32) + 3, 5, false));
                }
            }
            if black == 1 {
                // the peer of the cancelling entity is never heard again once the cancel has been issued
                sc.scripts.push(Script { trig, delay_ms: delay, act: Act::AddRule(Rule { from: 1 - who, to: who, m: Matcher::FromIdx(0), a: Action::Drop }) });
            }
            let desc = format!("{} size={} cancel at e{} {:?}+{}ms loss={:?} peer-blackout={} stale={}", k.describe(), size, who, sc.scripts[0].trig, delay, C10_LOSS[loss], black == 1, sc.transfers[0].stale_dest.is_some());
            let mut cs = Case::from(sc, &k, desc, true);
            cs.info.hyp = black == 0;
            Some(cs)
        }
        "suspended" => {
            // the user suspends the transaction at one entity and, a little later, cancels it there without resuming
            let mut rng = Rng::derive(seed, 1003, idx as u64);
            let mode = idx % 3;
            let who = (idx / 3) % 2;
            let mut k = Knobs::base();
            k.seg = 32;
            k.mode = if modes[mode].0 { ack() } else { unack() };
            k.closure = modes[mode].1;
            k.nak = nak_procs()[rng.usize(4)];
            let size = 160usize;
            let c = content(&mut rng, size, idx as u64 % 5, 32, 0xC10);
            let mut sc = two_party(&case, seed ^ idx as u64, &k, c);
            let n0 = first_pass_len(size, 32);
            let at = rng.usize(n0 + 1);
            let trig = if rng.bool() { Trigger::AfterEmit(0, at) } else { Trigger::AfterArrive(1, at.min(n0 - 1)) };
            if idx % 4 == 1 {
                // a cancel late in the life of a transaction: it was suspended early for longer than limit x ACK
                // timeout, is resumed, and cancelled right away; the first PDU of the cancel handshake is lost.
                // The handshake timers start when the cancel is issued, not when the transaction was created.
                let early = Trigger::AfterEmit(0, rng.usize(2));
                let pause = (k.limit as u64 + 1) * k.ta as u64 * 1000 + rng.below(3000);
                sc.scripts.push(Script { trig: early.clone(), delay_ms: pause + 2, act: Act::Prim(who, PrimKind::Cancel, 0) });
                sc.scripts.push(Script { trig: early.clone(), delay_ms: 0, act: Act::Prim(who, PrimKind::Suspend, 0) });
                sc.scripts.push(Script { trig: early, delay_ms: pause, act: Act::Prim(who, PrimKind::Resume, 0) });
                if who == 0 {
                    sc.rules.push(Rule { from: 0, to: 1, m: Matcher::KindNth(Kind::Eof, 0), a: Action::Drop });
                } else {
                    sc.rules.push(Rule { from: 1, to: 0, m: Matcher::KindNth(Kind::Finished, 0), a: Action::Drop });
                }
                // the peer must outlast the suspension
                let mut kp = k.clone();
                kp.limit = 40;
                sc.entities[1 - who].config = kp.config();
                let desc = format!("{} size={} e{} suspended at {:?} for {} ms, resumed, cancelled 2 ms later; first handshake PDU lost [{}]", k.describe(), size, who, sc.scripts[1].trig, pause, rules_desc(&sc.rules));
                let mut cs = Case::from(sc, &k, desc, true);
                cs.info.knobs[1 - who] = kp;
                return Some(cs);
            }
            if idx % 4 == 3 {
                // the other order: cancel first, the peer is never heard again, and the user then suspends and
                // resumes the already cancelled transaction: the cancel handshake must still run into its limit
                let (d1, d2) = (1 + rng.below(500), 600 + rng.below(3000));
                sc.scripts.push(Script { trig: trig.clone(), delay_ms: 0, act: Act::Prim(who, PrimKind::Cancel, 0) });
                sc.scripts.push(Script { trig: trig.clone(), delay_ms: 0, act: Act::AddRule(Rule { from: 1 - who, to: who, m: Matcher::FromIdx(0), a: Action::Drop }) });
                sc.scripts.push(Script { trig: trig.clone(), delay_ms: d1, act: Act::Prim(who, PrimKind::Suspend, 0) });
                sc.scripts.push(Script { trig, delay_ms: d1 + d2, act: Act::Prim(who, PrimKind::Resume, 0) });
                let desc = format!("{} size={} cancel at e{} {:?} with the peer silent from then on, suspend {} ms later, resume {} ms after that", k.describe(), size, who, sc.scripts[0].trig, d1, d2);
                return Some(Case::from(sc, &k, desc, false));
            }
            sc.scripts.push(Script { trig: trig.clone(), delay_ms: 1 + rng.below(800), act: Act::Prim(who, PrimKind::Cancel, 0) });
            sc.scripts.push(Script { trig, delay_ms: 0, act: Act::Prim(who, PrimKind::Suspend, 0) });
            if rng.chance(1, 3) {
                sc.rules.push(Rule { from: 0, to: 1, m: Matcher::Nth(rng.usize(n0)), a: Action::Drop });
            }
            let desc = format!("{} size={} suspend at e{} {:?}, cancel there {} ms later (no resume) faults=[{}]", k.describe(), size, who, sc.scripts[0].trig, sc.scripts[0].delay_ms, rules_desc(&sc.rules));
            Some(Case::from(sc, &k, desc, true))
        }
        "stall" => {
            // back-pressure instead of loss: the cancelling entity's transport stops taking PDUs (its `request`
            // never returns), before or after the cancel; the cancel still ends the transaction there
            let mut rng = Rng::derive(seed, 1005, idx as u64);
            let mode = idx % 3;
            let who = (idx / 3) % 2;
            let mut k = Knobs::base();
            k.seg = 32;
            k.mode = if modes[mode].0 { ack() } else { unack() };
            k.closure = modes[mode].1;
            k.nak = nak_procs()[rng.usize(4)];
            let size = 32 * (4 + rng.usize(12));
            let c = content(&mut rng, size, idx as u64 % 5, 32, 0xC10);
            let mut sc = two_party(&case, seed ^ idx as u64, &k, c);
            let n0 = first_pass_len(size, 32);
            let at = 1 + rng.usize(n0 - 2);
            let stall_at = if who == 0 { at + rng.usize(3) } else { rng.usize(2) };
            sc.stall_after.push((who, stall_at));
            let trig = if who == 0 { Trigger::AfterEmit(0, at) } else { Trigger::AfterArrive(1, at) };
            sc.scripts.push(Script { trig, delay_ms: rng.below(3), act: Act::Prim(who, PrimKind::Cancel, 0) });
            sc.paced = true;
            let desc = format!("{} size={} cancel at e{} {:?}; its transport stalls after {} PDUs", k.describe(), size, who, sc.scripts[0].trig, stall_at);
            Some(Case::from(sc, &k, desc, false))
        }
        "ignored" => {
            // an earlier fault that the user configured to be ignored (the receiver's inactivity watch, which
            // fires while the sender is suspended) must leave no trace in a later cancel: both sides still
            // report the cancel condition
            let mut rng = Rng::derive(seed, 1004, idx as u64);
            let who = idx % 2;
            let mut k = Knobs::base();
            k.seg = 32;
            k.nak = nak_procs()[rng.usize(4)];
            k.ti = 1;
            k.limit = 2;
            k.handlers = vec![(Condition::InactivityDetected, FaultHandlerAction::Ignore)];
            let size = 32 * (40 + rng.usize(40));
            let c = content(&mut rng, size, idx as u64 % 5, 32, 0xC10);
            let mut sc = two_party(&case, seed ^ idx as u64, &k, c);
            let early = Trigger::AfterEmit(0, 1 + rng.usize(10));
            let pause = 2200 + rng.below(2500);
            sc.scripts.push(Script { trig: early.clone(), delay_ms: pause + 3, act: Act::Prim(who, PrimKind::Cancel, 0) });
            sc.scripts.push(Script { trig: early.clone(), delay_ms: 0, act: Act::Prim(0, PrimKind::Suspend, 0) });
            sc.scripts.push(Script { trig: early, delay_ms: pause, act: Act::Prim(0, PrimKind::Resume, 0) });
            sc.paced = true;
            let desc = format!("{} handlers={:?} size={} sender suspended at {:?} for {} ms (the receiver's inactivity fault fires and is ignored), resumed, cancel at e{} 3 ms later", k.describe(), k.handlers, size, sc.scripts[1].trig, pause, who);
            Some(Case::from(sc, &k, desc, true))
        }
        "replay" => {
            // the cancel handshake completes; later the link re-delivers the whole first pass (metadata, data,
            // EOF) of the cancelled transaction, as a long-delayed duplicate would
            let mut rng = Rng::derive(seed, 1002, idx as u64);
            let mode = idx % 3;
            let who = (idx / 3) % 2;
            let mut k = Knobs::base();
            k.seg = 32;
            k.mode = if modes[mode].0 { ack() } else { unack() };
            k.closure = modes[mode].1;
            let size = 100usize;
            let c = content(&mut rng, size, idx as u64 % 5, 32, 0xC10);
            let mut sc = two_party(&case, seed ^ idx as u64, &k, c);
            let n0 = first_pass_len(size, 32);
            let at = rng.usize(n0 - 1);
            sc.scripts.push(Script { trig: if who == 0 { Trigger::AfterEmit(0, at) } else { Trigger::AfterArrive(1, at) }, delay_ms: 0, act: Act::Prim(who, PrimKind::Cancel, 0) });
            let when = *rng.pick(&[200u64, 2500, 20_000, 60_000]);
            for i in 0..n0 {
                sc.scripts.push(Script { trig: Trigger::At(when), delay_ms: i as u64, act: Act::Redeliver(0, i) });
            }
            let desc = format!("{} size={} cancel at e{} after index {} and, {} ms later, re-delivery of the sender's whole first pass", k.describe(), size, who, at, when);
            Some(Case::from(sc, &k, desc, true))
        }
        _ => None,
    }
}

pub fn judge_c10(info: &Info, log: &RunLog, rep: &mut Report) {
    let d = Dig::new(log);
    count_observed(rep, log);
    let t = &info.transfers[0];
    let id = match d.id(0) {
        Some(i) => i,
        None => return,
    };
    let w = |head: &str| witness(log, info, head);
    let who = match info.scripts.first().map(|s| &s.act) {
        Some(Act::Prim(e, PrimKind::Cancel, _)) => *e,
        _ => return,
    };
    let peer = 1 - who;
    let kind_of_ent = |e: Ent| if e == t.src { TaskKind::Send } else { TaskKind::Recv };
    let cancel = d.prims(who, 0).into_iter().find(|p| p.2 == PrimKind::Cancel && p.3);
    // ---- destination rule, at every observation point (independent of whether the cancel landed)
    let initial: Option<Vec<u8>> = t.stale_dest.clone();
    let rs = d.first_success(t.dst, id);
    for x in d.dests(0) {
        let ok = *x.2 == initial || x.2.as_deref() == Some(t.content.as_slice());
        if !ok {
            rep.violate("partial-file-exposed", format!("cfg={} cancel-at={} len={}", info.knobs[0].shape(), if who == t.src { "sender" } else { "receiver" }, if x.2.as_ref().map(|c| c.len()).unwrap_or(0) < t.content.len() { "short" } else { "other" }), &info.case, w(&format!("the destination name holds {} bytes that are neither the previous content nor the source file", x.2.as_ref().map(|c| c.len()).unwrap_or(0))));
            break;
        }
    }
    rep.count("c10_checked:destination-observations");
    // once the receiver has reported the transaction cancelled, nothing may be delivered any more
    let cancel_ind = d.finished(t.dst, id).into_iter().find(|x| x.2.report.condition == Condition::CancelReceived && !is_success(x.2)).map(|x| (x.0, x.1));
    if let Some((ci, ct)) = cancel_ind {
        rep.count("c10_checked:nothing-delivered-after-cancel-report");
        // was the delivery made by the cancelled transaction itself, or by a transaction that the daemon
        // re-created for the same id from PDUs that arrived after the cancelled one had ended?
        let respawned = |tu: u64| d.spans(id, TaskKind::Recv).iter().any(|sp| sp.start_us > ct && sp.start_us <= tu);
        if let Some(s) = d.finished(t.dst, id).into_iter().find(|x| x.0 > ci && is_success(x.2)) {
            let key = if respawned(s.1) { "by=re-created-transaction".to_string() } else { format!("by=cancelled-transaction cfg={} cancel-at={}", info.knobs[0].shape().split('/').next().unwrap_or(""), if who == t.src { "sender" } else { "receiver" }) };
            rep.violate("delivery-reported-after-cancel", key, &info.case, w(&format!("the receiver reported the transaction cancelled at {:.3}s and a successful delivery at {:.3}s", ct as f64 / 1e6, s.1 as f64 / 1e6)));
        }
        let obs = d.dests(0);
        let before = obs.iter().filter(|x| x.0 <= ci || x.1 <= ct).last().map(|x| x.2.clone());
        if let Some(bf) = before {
            if let Some(ch) = obs.iter().find(|x| x.1 > ct && *x.2 != bf) {
                let key = if respawned(ch.1) { "by=re-created-transaction".to_string() } else { format!("by=cancelled-transaction cfg={} cancel-at={} complete={}", info.knobs[0].shape().split('/').next().unwrap_or(""), if who == t.src { "sender" } else { "receiver" }, ch.2.as_deref() == Some(t.content.as_slice())) };
                rep.violate("file-appears-after-cancel", key, &info.case, w(&format!("the destination name changed at {:.3}s, after the receiver had reported the transaction cancelled at {:.3}s", ch.1 as f64 / 1e6, ct as f64 / 1e6)));
            }
        }
    }
    let (c_idx, c_t) = match cancel {
        Some(c) => (c.0, c.1),
        None => {
            rep.count("c10_cancel_not_applicable(transaction unknown at that point)");
            return;
        }
    };
    // was the transaction still alive at that entity when the cancel was issued?
    let alive_at = |e: Ent, tu: u64| d.spans(id, kind_of_ent(e)).iter().any(|s| s.start_us <= tu && s.end_us.map(|x| x > tu).unwrap_or(true));
    if !alive_at(who, c_t) {
        rep.count("c10_cancel_after_end");
        return;
    }
    rep.count(&format!("c10_cancels:{}", if who == t.src { "sender" } else { "receiver" }));
    let role = if who == t.src { "sender" } else { "receiver" };
    let received_success_before = rs.map(|r| r.0 < c_idx).unwrap_or(false);
    let b = bound_us(info, who);
    // 1. the cancelling entity ends within its limits
    let span_end = d.spans(id, kind_of_ent(who)).iter().filter(|s| s.start_us <= c_t).map(|s| s.end_us).last().flatten();
    match span_end {
        Some(e) if e <= c_t + b => rep.count("c10_checked:canceller-ended"),
        _ => rep.violate("cancel-does-not-end-transaction", format!("{}", history_shape(&d, info, who, 0)), &info.case, w(&format!("the {} was cancelled but its transaction did not end within {:.0} s", role, b as f64 / 1e6))),
    }
    // 2./3. reachable peer: ends too, and both report the cancel condition
    let mode_path = t.mode == ack() || (who == t.src) || info.knobs[0].closure;
    let has_cancel_cond = |e: Ent| -> bool {
        for r in &log.recs {
            if let Ev::Ind { ent, ind } = &r.ev {
                if *ent == e && ind_id(ind) == id {
                    let c = match ind {
                        Indication::Finished(f) => Some(f.report.condition),
                        Indication::Abandon(f) => Some(f.condition),
                        Indication::Fault(f) => Some(f.condition),
                        Indication::Report(r) => Some(r.condition),
                        _ => None,
                    };
                    if c == Some(Condition::CancelReceived) {
                        return true;
                    }
                }
            }
        }
        false
    };
    // a transaction that was already being cancelled by a fault keeps that fault's condition
    // (a fault whose configured handler is Ignore changes nothing: the transaction carries on, and a later cancel
    // is an ordinary cancel)
    let faulted_before = [t.src, t.dst].iter().any(|e| d.faults(*e, id).iter().any(|f| f.1 <= c_t && !info.knobs[*e].handlers.iter().any(|(c, a)| *c == f.2.condition && matches!(a, FaultHandlerAction::Ignore))));
    if faulted_before {
        rep.count("c10_cancel_after_fault");
    }
    // ... and a receiver that had already concluded the transfer (for whatever outcome) before the
    // cancel could reach it keeps that outcome: the cancel lost the race against the end of the transfer
    // (before = before the cancel actually reached the receiver: the user's request there, or the arrival of the
    // sender's EOF carrying a condition; if that EOF never arrives, the receiver cannot be excused by this rule)
    let reach_idx = if who == t.dst {
        c_idx
    } else {
        // (an EOF(cancel) that the sender did emit but the link lost for good never reaches the receiver:
        // whatever the receiver concluded, it concluded before the cancel reached it)
        let emitted = d.emits(t.src, id).iter().any(|e| matches!(&e.4.payload, PDUPayload::Directive(Operations::EoF(x)) if x.condition != Condition::NoError));
        d.arrivals(t.dst, id).iter().find(|a| matches!(&a.3.payload, PDUPayload::Directive(Operations::EoF(e)) if e.condition != Condition::NoError)).map(|a| a.0).unwrap_or(if emitted { usize::MAX } else { 0 })
    };
    let concluded_first = d.finished(t.dst, id).first().map(|f| f.2.report.condition != Condition::CancelReceived && f.0 < reach_idx).unwrap_or(false);
    if concluded_first {
        rep.count("c10_cancel_lost_race_against_end");
    }
    let faulted_before = faulted_before || concluded_first;
    if rs.is_none() && !faulted_before {
        if has_cancel_cond(who) {
            rep.count("c10_checked:canceller-reports-cancel");
        } else {
            // the same cause as the recorded finding: the receiver did report the cancel and ended, the daemon then
            // re-created the transaction from a PDU that arrived late, and that successor answered the cancelled
            // sender with a Finished PDU carrying another condition, which the sender passed on to its user
            let by_successor = who == t.src && cancel_ind.map_or(false, |(_, ct)| {
                let s_fin = d.finished(t.src, id).first().map(|x| x.1).unwrap_or(u64::MAX);
                d.spans(id, TaskKind::Recv).iter().any(|sp| sp.start_us > ct && sp.start_us <= s_fin)
            });
            let key = if by_successor { "where=canceller by=re-created-transaction".to_string() } else { format!("where=canceller {}", history_shape(&d, info, who, 0)) };
            rep.violate("cancel-condition-not-reported", key, &info.case, w(&format!("the cancelled {} never reported the cancel condition to its user", role)));
        }
    }
    if info.hyp && mode_path {
        // did the peer ever have the transaction?
        let peer_spans = d.spans(id, kind_of_ent(peer));
        if !peer_spans.is_empty() {
            let pend = d.ended(id, kind_of_ent(peer));
            let bp = bound_us(info, peer);
            match pend {
                Some(e) if e <= c_t + b + bp => rep.count("c10_checked:peer-ended"),
                _ => rep.violate("cancel-peer-does-not-end", format!("{}", history_shape(&d, info, peer, 0)), &info.case, w("the peer of the cancelled entity was reachable but its transaction did not end")),
            }
            // (in unacknowledged mode only a sender-side cancel can be signalled: its EOF(cancel) is retransmitted)
            if rs.is_none() && (t.mode == ack() || who == t.src) && !faulted_before {
                if has_cancel_cond(peer) {
                    rep.count("c10_checked:peer-reports-cancel");
                } else {
                    rep.violate("cancel-condition-not-reported", format!("where=peer {}", history_shape(&d, info, peer, 0)), &info.case, w("the reachable peer never reported the cancel condition to its user"));
                }
            }
        }
    }
    // 4. a file equal to the source under the destination name needs a success report
    let fin = d.dest_final(0).cloned().flatten();
    // (judged only when every byte really reached the receiver: a hole of zeros in a file of zeros proves nothing)
    let all_delivered = crate::p_proto::covered_bytes(d.arrivals(t.dst, id).iter().map(|a| a.3), t.content.len()).iter().all(|c| *c);
    if !t.src_name.is_empty() && all_delivered && fin.as_deref() == Some(t.content.as_slice()) && initial.as_deref() != Some(t.content.as_slice()) {
        if rs.is_none() {
            rep.violate("file-delivered-without-success-report", format!("cfg={} cancel-at={}", info.knobs[0].shape(), role), &info.case, w("the destination name holds the complete file at the end although the receiver never reported a successful delivery"));
        } else {
            rep.count("c10_runs_where_completion_won_the_race");
        }
    }
    let _ = received_success_before;
    rep.nontrivial(case_sig(info, log));
    rep.sample(sample_json(log, info, 40));
}

pub fn run_c10(tier: &str, seed: u64, replay: Option<&str>) -> (Meta, Report) {
    let thorough = tier == "thorough";
    let meta = Meta {
        property: "C10",
        level: "fault_enumeration",
        rule: "sys = Cancel issued at the sender or at the receiver after EVERY emission of the sender, EVERY arrival at the receiver and each of the first three arrivals at the sender, for a 4-segment and an empty file x {ack (deferred/immediate NAK), unack, unack+closure} x {no loss, loss of the 1st EOF, 2nd EOF, 1st/2nd ACK(EOF), 1st Finished, 1st ACK(Finished), 2nd or 4th file-data PDU} plus peer never heard again after the cancel (complete; quick tier takes every 3rd case by seed); rand = random sizes/indices/delays with extra dup/delay faults; suspended = the transaction is suspended at the entity and cancelled there a little later without being resumed; replay = the cancel handshake completes and 0.2-60 s later the sender's whole first pass is delivered again (long-delayed duplicates). distinct_nontrivial = distinct (config, size, event-order) signatures among runs in which the cancel reached a live transaction.".into(),
        exhaustive: thorough,
        assumptions: vec!["a cancel may lose the race against completion: the cancel-condition rule is applied only when the receiver never reported a successful delivery".into(), "in unacknowledged mode without closure a receiver-side cancel cannot be signalled to the sender; only termination and the file rule are judged there".into()],
        require: vec![("c10_cancels:sender".into(), 150), ("c10_cancels:receiver".into(), 150), ("c10_checked:peer-reports-cancel".into(), 40), ("c10_checked:nothing-delivered-after-cancel-report".into(), 100)],
        extra: vec![],
    };
    if let Some(r) = replay {
        let (_, fam, idx, sd) = parse_case(r);
        return (meta, run_single(c10_case(&fam, idx, sd).expect("case"), judge_c10));
    }
    let n = c10_space().len();
    let stride = if thorough { 1 } else { 3 };
    let off = (seed % stride as u64) as usize;
    let m = (n - off + stride - 1) / stride;
    let mut rep = run_cases(m, "c10-sys", move |i| c10_case("sys", off + i * stride, seed), judge_c10);
    rep.add("cases:sys", m as u64);
    let nr = if thorough { 400_000 } else { 3_000 };
    rep.merge(run_cases(nr, "c10-rand", move |i| c10_case("rand", i, seed), judge_c10));
    rep.add("cases:rand", nr as u64);
    let nsu = if thorough { 60_000 } else { 1_000 };
    rep.merge(run_cases(nsu, "c10-suspended", move |i| c10_case("suspended", i, seed), judge_c10));
    rep.merge(run_cases(nsu / 2, "c10-stall", move |i| c10_case("stall", i, seed), judge_c10));
    rep.add("cases:stall", (nsu / 2) as u64);
    rep.merge(run_cases(nsu / 2, "c10-ignored", move |i| c10_case("ignored", i, seed), judge_c10));
    rep.add("cases:ignored", (nsu / 2) as u64);
    rep.add("cases:suspended", nsu as u64);
    let np = if thorough { 20_000 } else { 300 };
    rep.merge(run_cases(np, "c10-replay", move |i| c10_case("replay", i, seed), judge_c10));
    rep.add("cases:replay", np as u64);
    (meta, rep)
}

// ===================================================================================== C13b

fn c13b_requests(rng: &mut Rng, n: usize) -> Vec<FileStoreRequest> {
    use FileStoreAction as A;
    let names = ["dst0.bin", "marker0", "f1", "f2", "d1/f3", "d1", "d2", "nx", "d2/new"];
    let acts = [A::CreateFile, A::DeleteFile, A::RenameFile, A::AppendFile, A::ReplaceFile, A::CreateDirectory, A::RemoveDirectory, A::DenyFile, A::DenyDirectory];
    let mut v = vec![req(A::AppendFile, "marker0", "dst0.bin")];
    for _ in 0..n {
        let a = acts[rng.usize(acts.len())].clone();
        let f1 = names[rng.usize(names.len())];
        let f2 = names[rng.usize(names.len())];
        let two = matches!(a, A::RenameFile | A::AppendFile | A::ReplaceFile);
        v.push(req(a, f1, if two { f2 } else { "" }));
    }
    if rng.bool() {
        let k = rng.usize(v.len());
        v.swap(0, k);
    }
    v
}

pub fn c13b_case(fam: &str, idx: usize, seed: u64) -> Option<Case> {
    let case = format!("C13b:{}:{}:{}", fam, idx, seed);
    let mut rng = Rng::derive(seed, 1301, idx as u64);
    match fam {
        "one" | "two" => {
            // every single request / every ordered pair of requests of the C13a request set, carried by a
            // transaction over a clean link (alternating modes)
            let reqs = crate::fs::c13_requests();
            let n = reqs.len();
            let list = if fam == "one" { vec![reqs.get(idx)?.clone()] } else { vec![reqs.get(idx / n)?.clone(), reqs[idx % n].clone()] };
            let mut k = Knobs::base();
            k.seg = 32;
            if idx % 3 == 1 {
                k.mode = unack();
                k.closure = idx % 2 == 0;
            }
            let c = content(&mut rng, 70, idx as u64 % 5, 32, 0xC13);
            let mut sc = two_party(&case, seed ^ idx as u64, &k, c);
            sc.transfers[0].requests = list.clone();
            sc.plant = vec![(1, "f1".into(), Some(b"one".to_vec())), (1, "f2".into(), Some(b"two-two".to_vec())), (1, "d1".into(), None), (1, "d1/f3".into(), Some(b"three".to_vec())), (1, "d2".into(), None)];
            let desc = format!("{} size=70 requests={:?} clean link", k.describe(), list.iter().map(|r| format!("{:?}({},{})", r.action_code, r.first_filename, r.second_filename)).collect::<Vec<_>>());
            Some(Case::from(sc, &k, desc, true))
        }
        "rand" => {
            let mut k = rand_knobs(&mut rng, false);
            k.seg = *rng.pick(&[32u16, 64, 256]);
            let seg = k.seg as usize;
            let size = rand_size(&mut rng, seg).min(5 * seg);
            let cl = rng.below(5);
            let c = content(&mut rng, size, cl, seg, 0xC13);
            let mut sc = two_party(&case, rng.next_u64(), &k, c);
            let nreq = rng.usize(5);
            sc.transfers[0].requests = c13b_requests(&mut rng, nreq);
            sc.plant = vec![(1, "f1".into(), Some(b"one".to_vec())), (1, "f2".into(), Some(b"two-two".to_vec())), (1, "d1".into(), None), (1, "d1/f3".into(), Some(b"three".to_vec())), (1, "d2".into(), None)];
            let n0 = first_pass_len(size, seg) + 4;
            // faults: within the hypothesis in most runs, a fatal loss in some (then nothing may be executed)
            let fatal = rng.chance(1, 5);
            if fatal {
                let kind = *rng.pick(&[Kind::FileData, Kind::Eof, Kind::Metadata]);
                sc.rules.push(Rule { from: 0, to: 1, m: Matcher::KindAll(kind), a: Action::Drop });
            } else {
                for _ in 0..rng.usize(3) {
                    sc.rules.push(rand_fault(&mut rng, n0, 6, k.mode == ack()));
                }
                if k.mode == ack() && rng.bool() {
                    sc.rules.push(Rule { from: 0, to: 1, m: Matcher::KindNth(Kind::AckFin, 0), a: Action::Drop });
                    sc.scripts.push(Script { trig: Trigger::AfterInd(1, IndKind::Finished, 0), delay_ms: 1 + rng.below(2000), act: Act::RedeliverKind(0, *rng.pick(&[Kind::Eof, Kind::FileData, Kind::Metadata]), 0) });
                } else if (k.mode == ack() || k.closure) && rng.chance(1, 3) {
                    // the Finished PDUs that report the success are lost; what finally reaches the sender is the
                    // Finished PDU sent after the positive-ACK limit or after a cancel by the receiving user
                    if rng.bool() {
                        for j in 0..k.limit as usize {
                            sc.rules.push(Rule { from: 1, to: 0, m: Matcher::KindNth(Kind::Finished, j), a: Action::Drop });
                        }
                    } else {
                        sc.rules.push(Rule { from: 1, to: 0, m: Matcher::KindNth(Kind::Finished, 0), a: Action::Drop });
                        sc.scripts.push(Script { trig: Trigger::AfterInd(1, IndKind::Finished, 0), delay_ms: 1 + rng.below(900), act: Act::Prim(1, PrimKind::Cancel, 0) });
                    }
                }
            }
            let desc = format!("{} size={} requests={:?} faults=[{}] fatal-loss={}", k.describe(), size, sc.transfers[0].requests.iter().map(|r| format!("{:?}({},{})", r.action_code, r.first_filename, r.second_filename)).collect::<Vec<_>>(), rules_desc(&sc.rules), fatal);
            Some(Case::from(sc, &k, desc, !fatal && k.mode == ack()))
        }
        _ => None,
    }
}

pub fn judge_c13b(info: &Info, log: &RunLog, rep: &mut Report) {
    let d = Dig::new(log);
    count_observed(rep, log);
    let t = &info.transfers[0];
    let id = match d.id(0) {
        Some(i) => i,
        None => return,
    };
    let w = |head: &str| witness(log, info, head);
    // the initial tree of the receiver's root
    let mut m: Model = Model::new();
    for (n, c) in [("f1", Some(&b"one"[..])), ("f2", Some(&b"two-two"[..])), ("d1", None), ("d1/f3", Some(&b"three"[..])), ("d2", None)] {
        m.insert(n.to_string(), match c {
            Some(b) => Node::File(b.to_vec()),
            None => Node::Dir,
        });
    }
    m.insert("marker0".into(), Node::File(b"M".to_vec()));
    let initial = m.clone();
    let is_ok = |f: &cfdp_core::daemon::FinishedIndication| f.report.condition == Condition::NoError && f.delivery_code == DeliveryCode::Complete && f.file_status == FileStatusCode::Retained;
    let fin_r = d.finished(t.dst, id);
    let success = fin_r.iter().find(|x| is_ok(x.2));
    let disk: Model = log.trees[t.dst].iter().map(|(k, v)| (k.clone(), match v { Some(b) => Node::File(b.clone()), None => Node::Dir })).collect();
    let fmt = |r: &[FileStoreResponse]| r.iter().map(|x| format!("{:?}", x.action_and_status)).collect::<Vec<_>>();
    match success {
        None => {
            rep.count("c13b_runs:no-successful-delivery");
            // nothing may have been executed: the tree (apart from a possibly exposed destination file) is the initial one
            let mut disk2 = disk.clone();
            disk2.remove("dst0.bin");
            if disk2 != initial {
                let changed: Vec<&String> = disk2.keys().filter(|k| disk2.get(*k) != initial.get(*k)).chain(initial.keys().filter(|k| !disk2.contains_key(*k))).collect();
                rep.violate("requests-executed-without-delivery", format!("mode={} changed={}", info.knobs[0].shape(), changed.len().min(3)), &info.case, w(&format!("no successful delivery was reported, yet the receiver's filestore changed: {:?}", changed)));
            }
            // and no response may claim success
            for (_, _, f) in &fin_r {
                if f.filestore_responses.iter().any(|r| r.action_and_status.success()) {
                    rep.violate("requests-executed-without-delivery", format!("mode={} response-claims-success", info.knobs[0].shape()), &info.case, w("a Finished indication without successful delivery reports a successful filestore request"));
                }
            }
        }
        Some((li, _, f)) => {
            rep.count("c13b_runs:successful-delivery");
            // expected: the delivered file exists, then the requests in order, the rest not performed after the first failure
            m.insert("dst0.bin".into(), Node::File(t.content.clone()));
            let mut want: Vec<FileStoreStatus> = vec![];
            let mut failed = false;
            for r in &t.requests {
                if failed {
                    want.push(FileStoreResponse::not_performed(r).action_and_status);
                } else {
                    let s = model_apply(&mut m, r);
                    failed = !s.success();
                    want.push(s);
                }
            }
            let got: Vec<FileStoreStatus> = f.filestore_responses.iter().map(|r| r.action_and_status).collect();
            rep.count("c13b_checked:responses-at-receiver");
            rep.add("c13b_requests_judged", t.requests.len() as u64);
            if failed {
                rep.count("c13b_runs_with_a_failing_request");
            }
            if got != want {
                let k = got.iter().zip(want.iter()).position(|(a, b)| a != b).unwrap_or(got.len().min(want.len()));
                rep.violate("request-responses-wrong", format!("where=receiver-indication first-diff: got={:?} want={:?}", got.get(k), want.get(k)), &info.case, w(&format!("filestore responses at the receiving user {:?}, CFDP semantics give {:?}", got, want)));
            }
            // names echoed
            for (r, q) in f.filestore_responses.iter().zip(t.requests.iter()) {
                if r.first_filename != q.first_filename || r.second_filename != q.second_filename {
                    rep.violate("request-responses-wrong", "where=receiver-indication names-not-echoed".to_string(), &info.case, w("a response does not name the files of its request"));
                }
            }
            // executed exactly once, in order: the final tree is the model's
            if disk != m {
                let changed: Vec<&String> = disk.keys().filter(|k| disk.get(*k) != m.get(*k)).chain(m.keys().filter(|k| !disk.contains_key(*k))).collect();
                rep.violate("request-effects-wrong", format!("mode={} differing-entries={}", info.knobs[0].shape(), changed.len().min(3)), &info.case, w(&format!("the receiver's filestore differs from the result of executing the requests once, in order: {:?}", changed)));
            } else {
                rep.count("c13b_checked:tree-equals-model");
            }
            // the same responses in every Finished PDU of the receiver after the success and at the sending user
            // (of the incarnation that delivered: a transaction re-created by a straggler after the end knows nothing)
            let t_ok = log.recs[*li].t_us;
            let life_end = d.spans(id, TaskKind::Recv).into_iter().filter(|s| s.start_us <= t_ok && s.end_us.map_or(true, |e| e >= t_ok)).last().and_then(|s| s.end_us).unwrap_or(u64::MAX);
            for e in d.emits(t.dst, id) {
                if let PDUPayload::Directive(Operations::Finished(fp)) = &e.4.payload {
                    if (e.0 > *li || e.1 >= log.recs[*li].t_us) && e.1 <= life_end {
                        let g: Vec<FileStoreStatus> = fp.filestore_response.iter().map(|r| r.action_and_status).collect();
                        rep.count("c13b_checked:responses-in-finished-pdu");
                        if fp.condition != Condition::NoError {
                            rep.count("c13b_checked:responses-in-finished-pdu-after-limit-or-cancel");
                        }
                        // (whatever condition the PDU carries: a limit fault or a cancel after the delivery does
                        // not undo the requests)
                        if g != want {
                            rep.violate("request-responses-wrong", format!("where=finished-pdu got={} want={}", g.len(), want.len()), &info.case, w(&format!("Finished PDU carries {:?}, expected {:?}", fmt(&fp.filestore_response), want)));
                        }
                    }
                }
            }
            for (_, _, fs) in d.finished(t.src, id) {
                if fs.delivery_code == DeliveryCode::Complete {
                    let g: Vec<FileStoreStatus> = fs.filestore_responses.iter().map(|r| r.action_and_status).collect();
                    rep.count("c13b_checked:responses-at-sender");
                    if g != want {
                        rep.violate("request-responses-wrong", format!("where=sender-indication got={} want={}", g.len(), want.len()), &info.case, w(&format!("the sending user was given {:?}, expected {:?}", g, want)));
                    }
                }
            }
            rep.nontrivial(case_sig(info, log) ^ crate::util::fnv1a(format!("{:?}", want).as_bytes()));
            rep.sample(sample_json(log, info, 30));
        }
    }
}

pub fn run_c13b(rep_out: &mut Report, tier: &str, seed: u64, replay: Option<&str>) {
    if let Some(r) = replay {
        let (_, fam, idx, sd) = parse_case(r);
        rep_out.merge(run_single(c13b_case(&fam, idx, sd).expect("case"), judge_c13b));
        return;
    }
    let nr = if tier == "thorough" { 800_000 } else { 4_000 };
    let rep = run_cases(nr, "c13b-rand", move |i| c13b_case("rand", i, seed), judge_c13b);
    rep_out.merge(rep);
    rep_out.add("cases:rand", nr as u64);
    let n1 = crate::fs::c13_requests().len();
    rep_out.merge(run_cases(n1, "c13b-one", move |i| c13b_case("one", i, seed), judge_c13b));
    rep_out.add("cases:one", n1 as u64);
    // pairs: complete in thorough, every 23rd (by seed) in quick
    let n2 = n1 * n1;
    let stride = if tier == "thorough" { 1 } else { 23 };
    let off = (seed % stride as u64) as usize;
    let m2 = (n2 - off + stride - 1) / stride;
    rep_out.merge(run_cases(m2, "c13b-two", move |i| c13b_case("two", off + i * stride, seed), judge_c13b));
    rep_out.add("cases:two", m2 as u64);
}

pub fn meta_c13b() -> Meta {
    Meta {
        property: "C13",
        level: "exploration",
        rule: "end to end: every single request of the C13a request set (9 actions over 8 names, 240 requests) and every ordered pair of them (complete in thorough, every 23rd in quick) carried by a transaction over a clean link; plus seeded transactions (both modes, random knobs and sizes) carrying 1-5 filestore requests over a namespace of files and directories planted at the receiver, always including a non-idempotent append of the delivered file; faults within the C02 hypothesis, or the loss of every PDU of one kind (no delivery), or a withheld ACK(Finished) with a late re-delivery (C04 window). Oracle: an executable model of the request semantics (shared with C13a) run on the receiver's initial tree gives the expected responses and the expected final tree. distinct_nontrivial = distinct (config, event-order, expected-response-list) signatures among runs with a successful delivery.".into(),
        exhaustive: false,
        assumptions: vec!["requests are expected to run iff the receiver reported Finished(NoError, Complete, Retained)".into()],
        require: vec![("c13b_checked:responses-at-receiver".into(), 500), ("c13b_checked:responses-at-sender".into(), 200), ("c13b_checked:responses-in-finished-pdu-after-limit-or-cancel".into(), 30), ("c13b_runs:no-successful-delivery".into(), 50), ("c13b_runs_with_a_failing_request".into(), 100)],
        extra: vec![],
    }
}

// ===================================================================================== C17b

const C17_TIMERS: [(i64, i64, i64, u32); 7] = [(10, 3, 4, 3), (4, 1, 2, 2), (20, 5, 2, 5), (6, 2, 9, 1), (3, 1, 5, 3), (1, 2, 2, 2), (2, 3, 1, 2)];
const C17_ACTIONS: [Option<FaultHandlerAction>; 5] = [None, Some(FaultHandlerAction::Cancel), Some(FaultHandlerAction::Ignore), Some(FaultHandlerAction::Suspend), Some(FaultHandlerAction::Abandon)];

/// scenario kinds that provoke each limit
/// 0 = e1->e0 dark from index c (sender: ACK limit / receiver: Finished ACK limit)
/// 1 = e0->e1 dark from index c (receiver inactivity; sender ACK limit)
/// 2 = one data segment and every retransmission of it lost (receiver NAK limit)
/// 3 = two segments lost, one of them recovers (progress resets the NAK count), the other never
/// 4 = one data byte corrupted without CRC (checksum failure at the receiver)
/// 5 = every Finished lost (receiver's ACK limit), sender waits
type C17Spec = (usize, usize, usize, usize, usize, usize);

fn c17_space() -> Vec<C17Spec> {
    // (scenario kind, cut/segment index, timers idx, action idx, nak idx, mode idx 0 ack / 1 unack+closure)
    let mut v = vec![];
    for ti in 0..C17_TIMERS.len() {
        for ai in 0..C17_ACTIONS.len() {
            for nak in 0..4 {
                for c in 0..4 {
                    v.push((0, c, ti, ai, nak, 0));
                }
                for c in 0..7 {
                    v.push((1, c, ti, ai, nak, 0));
                }
                for c in 1..5 {
                    v.push((2, c, ti, ai, nak, 0));
                }
                v.push((3, 1, ti, ai, nak, 0));
                v.push((3, 2, ti, ai, nak, 0));
                v.push((4, 2, ti, ai, nak, 0));
                v.push((5, 0, ti, ai, nak, 0));
            }
            // unacknowledged + closure: sender inactivity while waiting for Finished, receiver's Finished limit
            v.push((5, 0, ti, ai, 0, 1));
            v.push((1, 2, ti, ai, 0, 1));
            v.push((0, 0, ti, ai, 0, 1));
        }
    }
    v
}

pub fn c17_case(fam: &str, idx: usize, seed: u64) -> Option<Case> {
    let case = format!("C17b:{}:{}:{}", fam, idx, seed);
    match fam {
        "sys" => {
            let (kind, c, ti, ai, nak, mode) = *c17_space().get(idx)?;
            let mut k = Knobs::base();
            k.seg = 32;
            k.nak = nak_procs()[nak];
            let t = C17_TIMERS[ti];
            k.ti = t.0;
            k.ta = t.1;
            k.tn = t.2;
            k.limit = t.3;
            if mode == 1 {
                k.mode = unack();
                k.closure = true;
            }
            if let Some(a) = &C17_ACTIONS[ai] {
                k.handlers = [Condition::PositiveLimitReached, Condition::NakLimitReached, Condition::InactivityDetected, Condition::FileChecksumFailure].iter().map(|c| (*c, a.clone())).collect();
            }
            let size = 128usize; // 4 segments: emissions MD, FD0..FD3, EOF
            let mut rng = Rng::derive(seed, 1701, idx as u64);
            let cont = content(&mut rng, size, 0, 32, 0xC17);
            let mut sc = two_party(&case, seed ^ idx as u64, &k, cont);
            match kind {
                0 => sc.rules.push(Rule { from: 1, to: 0, m: Matcher::FromIdx(c), a: Action::Drop }),
                1 => sc.rules.push(Rule { from: 0, to: 1, m: Matcher::FromIdx(c), a: Action::Drop }),
                2 => sc.rules.push(Rule { from: 0, to: 1, m: Matcher::FdOffset(32 * (c as u64 - 1)), a: Action::Drop }),
                3 => {
                    // segment c is lost once, segment c+1 is lost for good
                    sc.rules.push(Rule { from: 0, to: 1, m: Matcher::Nth(c), a: Action::Drop });
                    sc.rules.push(Rule { from: 0, to: 1, m: Matcher::FdOffset(32 * c as u64), a: Action::Drop });
                }
                4 => sc.rules.push(Rule { from: 0, to: 1, m: Matcher::Nth(c), a: Action::Corrupt(12, 0x40) }),
                _ => sc.rules.push(Rule { from: 1, to: 0, m: Matcher::KindAll(Kind::Finished), a: Action::Drop }),
            }
            sc.paced = true;
            let desc = format!("{} size={} scenario={} index={}", k.describe(), size, ["reverse link dark from #c", "forward link dark from #c", "segment c and all its retransmissions lost", "segment c lost once, segment c+1 lost for good", "one byte of segment c corrupted (no CRC)", "every Finished lost"][kind], c);
            Some(Case::from(sc, &k, desc, false))
        }
        "prompt" => {
            // a Prompt issued early in a data phase that lasts longer than the ACK timeout, then a peer that is never
            // heard: the EOF must still get its full number of transmissions, one ACK timeout apart
            let mut rng = Rng::derive(seed, 1703, idx as u64);
            let mut k = Knobs::base();
            k.seg = 32;
            k.nak = nak_procs()[rng.usize(4)];
            let t = *rng.pick(&[(10i64, 1i64, 2i64, 2u32), (10, 1, 5, 3), (20, 2, 2, 2), (30, 3, 4, 3)]);
            k.ti = t.0;
            k.ta = t.1;
            k.tn = t.2;
            k.limit = t.3;
            // 1 PDU per millisecond: the data phase lasts 1.3 .. 2.6 ACK timeouts
            let nseg = (t.1 as usize * 1000) * (13 + rng.usize(14)) / 10;
            let size = nseg * 32 - rng.usize(32);
            let cont = content(&mut rng, size, 3, 32, 0xC17);
            let mut sc = two_party(&case, rng.next_u64(), &k, cont);
            let what = if rng.bool() { PrimKind::PromptNak } else { PrimKind::PromptKeepAlive };
            let at = rng.usize(20);
            sc.scripts.push(Script { trig: Trigger::AfterEmit(0, at), delay_ms: 0, act: Act::Prim(0, what, 0) });
            sc.rules.push(Rule { from: 1, to: 0, m: Matcher::FromIdx(0), a: Action::Drop });
            sc.paced = true;
            let desc = format!("{} size={} ({} segments) {:?} after emission #{}, reverse link dark", k.describe(), size, nseg, what, at);
            Some(Case::from(sc, &k, desc, false))
        }
        "keepalive" => {
            // a live but slow peer: after acknowledging the EOF it sends nothing but Keep Alive PDUs, closer
            // together than the inactivity timeout, for longer than the inactivity limit, then Finished.
            // Every PDU heard restarts the inactivity watch: no inactivity fault may be declared.
            let mut rng = Rng::derive(seed, 1704, idx as u64);
            let mut k = Knobs::base();
            k.seg = 32;
            let t = *rng.pick(&[(1i64, 2i64, 2i64, 2u32), (2, 3, 1, 2), (3, 1, 5, 3), (4, 5, 5, 1)]);
            k.ti = t.0;
            k.ta = t.1;
            k.tn = t.2;
            k.limit = t.3;
            if rng.bool() {
                let a = rng.pick(&[FaultHandlerAction::Abandon, FaultHandlerAction::Cancel]).clone();
                k.handlers = vec![(Condition::InactivityDetected, a)];
            }
            let size = 32 * (1 + rng.usize(4));
            let cont = content(&mut rng, size, 0, 32, 0xC17);
            let mut sc = two_party(&case, rng.next_u64(), &k, cont);
            sc.entities[1].scripted = true;
            let gap = (t.0 as u64 * 1000) * (5 + rng.below(4)) / 10;
            let n = ((t.0 as u64 * 1000 * t.3 as u64 + 2500) / gap + 1) as u32;
            let mut peer = crate::p_peer::ScriptedReceiver::new(1, vec![], true, gap.min(400));
            peer.keepalives = Some((gap, n));
            sc.peers.push((1, Box::new(peer)));
            sc.paced = true;
            sc.observe_ms = gap * n as u64 + 3 * bound_ms(&k.config(), 2000);
            let desc = format!("{} size={} scripted receiver: ACK(EOF), then {} Keep Alive PDUs {} ms apart, then Finished", k.describe(), size, n, gap);
            Some(Case::from(sc, &k, desc, false))
        }
        "suspend" => {
            // the sender waits for the ACK of its EOF from a peer that is never heard; the user suspends it and
            // resumes it half / one and a half / several ACK timeouts later: suspended time does not count
            let mut rng = Rng::derive(seed, 1705, idx as u64);
            let mut k = Knobs::base();
            k.seg = 32;
            let t = *rng.pick(&[(30i64, 2i64, 2i64, 2u32), (30, 1, 5, 3), (40, 3, 4, 3), (40, 2, 2, 4)]);
            k.ti = t.0;
            k.ta = t.1;
            k.tn = t.2;
            k.limit = t.3;
            let size = 32 * (1 + rng.usize(4));
            let cont = content(&mut rng, size, 0, 32, 0xC17);
            let mut sc = two_party(&case, rng.next_u64(), &k, cont);
            sc.rules.push(Rule { from: 1, to: 0, m: Matcher::FromIdx(0), a: Action::Drop });
            let ta = t.1 as u64 * 1000;
            let at = *rng.pick(&[ta / 4, ta / 2, ta + ta / 3]);
            let len = *rng.pick(&[ta / 2, ta + ta / 2, 2 * ta + ta / 2, (t.3 as u64 + 1) * ta]);
            sc.scripts.push(Script { trig: Trigger::AfterInd(0, IndKind::EoFSent, 0), delay_ms: at, act: Act::Prim(0, PrimKind::Suspend, 0) });
            sc.scripts.push(Script { trig: Trigger::AfterInd(0, IndKind::EoFSent, 0), delay_ms: at + len, act: Act::Prim(0, PrimKind::Resume, 0) });
            sc.paced = true;
            let desc = format!("{} size={} reverse link dark; sender suspended {} ms after EOF for {} ms", k.describe(), size, at, len);
            Some(Case::from(sc, &k, desc, false))
        }
        "mixed" => {
            // a different handler for every condition: the action taken must be the one configured for the
            // condition that was actually declared, also for the second and third fault of a transaction
            let mut rng = Rng::derive(seed, 1702, idx as u64);
            let mut k = Knobs::base();
            k.seg = 32;
            k.nak = nak_procs()[rng.usize(4)];
            let t = C17_TIMERS[rng.usize(C17_TIMERS.len())];
            k.ti = t.0;
            k.ta = t.1;
            k.tn = t.2;
            k.limit = t.3;
            let acts = [FaultHandlerAction::Cancel, FaultHandlerAction::Ignore, FaultHandlerAction::Suspend, FaultHandlerAction::Abandon];
            for c in [Condition::PositiveLimitReached, Condition::NakLimitReached, Condition::InactivityDetected, Condition::FileChecksumFailure] {
                if rng.chance(4, 5) {
                    k.handlers.push((c, acts[rng.usize(4)].clone()));
                }
            }
            // the NAK limit is the one fault that can be ignored without the transaction stalling: make it frequent
            if rng.bool() {
                k.handlers.retain(|h| h.0 != Condition::NakLimitReached);
                k.handlers.push((Condition::NakLimitReached, FaultHandlerAction::Ignore));
            }
            // the inactivity limit is the other fault that is often ignored here, so that the sender, too, sees a
            // second fault of a different kind
            if rng.chance(1, 3) {
                k.handlers.retain(|h| h.0 != Condition::InactivityDetected);
                k.handlers.push((Condition::InactivityDetected, FaultHandlerAction::Ignore));
            }
            let size = 128usize;
            let cont = content(&mut rng, size, 0, 32, 0xC17);
            let mut sc = two_party(&case, rng.next_u64(), &k, cont);
            let kind = rng.usize(7);
            let c = 1 + rng.usize(3);
            match kind {
                6 => {
                    // the sender hears one NAK after its EOF and then nothing: its inactivity timer and its (never
                    // acknowledged) EOF timer both run
                    sc.rules.push(Rule { from: 1, to: 0, m: Matcher::KindAll(Kind::AckEof), a: Action::Drop });
                    sc.rules.push(Rule { from: 1, to: 0, m: Matcher::FromIdx(2), a: Action::Drop });
                    sc.rules.push(Rule { from: 0, to: 1, m: Matcher::FdOffset(32 * (c as u64 - 1)), a: Action::Drop });
                }
                0 => sc.rules.push(Rule { from: 1, to: 0, m: Matcher::FromIdx(rng.usize(4)), a: Action::Drop }),
                1 => sc.rules.push(Rule { from: 0, to: 1, m: Matcher::FromIdx(rng.usize(7)), a: Action::Drop }),
                2 => sc.rules.push(Rule { from: 0, to: 1, m: Matcher::FdOffset(32 * (c as u64 - 1)), a: Action::Drop }),
                3 => {
                    sc.rules.push(Rule { from: 0, to: 1, m: Matcher::Nth(c), a: Action::Drop });
                    sc.rules.push(Rule { from: 0, to: 1, m: Matcher::FdOffset(32 * c as u64), a: Action::Drop });
                }
                4 => sc.rules.push(Rule { from: 0, to: 1, m: Matcher::Nth(c), a: Action::Corrupt(12, 0x40) }),
                _ => sc.rules.push(Rule { from: 1, to: 0, m: Matcher::KindAll(Kind::Finished), a: Action::Drop }),
            }
            sc.paced = true;
            let desc = format!("{} size={} mixed handlers, scenario kind {} index {} [{}]", k.describe(), size, kind, c, rules_desc(&sc.rules));
            Some(Case::from(sc, &k, desc, false))
        }
        _ => None,
    }
}

/// times of the maximal run of entries of `xs` that precede `tf` and have no entry of `answers` after them
fn unanswered_before(xs: &[u64], answers: &[u64], tf: u64) -> Vec<u64> {
    // strictly before the fault: a transmission at the very instant of the fault is the handler's doing
    let last_ans = answers.iter().filter(|a| **a < tf).max().cloned();
    xs.iter().filter(|x| **x + 5_000 < tf && last_ans.map(|a| **x > a).unwrap_or(true)).cloned().collect()
}

/// suspend family: the time a sender spends suspended counts neither towards the next EOF retransmission nor
/// towards the limit
pub fn judge_c17b_suspend(info: &Info, log: &RunLog, rep: &mut Report) {
    let d = Dig::new(log);
    count_observed(rep, log);
    let id = match d.id(0) {
        Some(i) => i,
        None => return,
    };
    let k = &info.knobs[0];
    let ta = k.ta as u64 * 1_000_000;
    let w = |head: &str| witness(log, info, head);
    let resume = d.prims(0, 0).into_iter().find(|p| p.2 == PrimKind::Resume && p.3).map(|p| p.1);
    let sus = d.inds(0, id, IndKind::Suspended).first().map(|x| x.1);
    let (s_t, r_t) = match (sus, resume) {
        (Some(s), Some(r)) if r > s => (s, r),
        _ => return,
    };
    let eofs: Vec<u64> = d.emits(0, id).into_iter().filter(|e| matches!(&e.4.payload, PDUPayload::Directive(Operations::EoF(x)) if x.condition == Condition::NoError)).map(|e| e.1).collect();
    let fault = d.faults(0, id).into_iter().find(|f| f.2.condition == Condition::PositiveLimitReached).map(|f| f.1);
    rep.count("c17_suspend_runs_judged");
    let cfg = format!("cfg={} L={}", k.shape(), k.limit);
    // (a) the first retransmission after the resume waits a full ACK timeout
    if let Some(first_after) = eofs.iter().find(|t| **t > r_t) {
        if *first_after + 10_000 < r_t + ta {
            rep.violate("suspended-time-counted", format!("{} what=early-retransmission", cfg), &info.case, w(&format!("resumed at {:.3}s, EOF retransmitted at {:.3}s: less than one ACK timeout ({} s) after the resume", r_t as f64 / 1e6, *first_after as f64 / 1e6, k.ta)));
        }
    }
    // (b) the EOF gets its L transmissions, and the limit is not declared before L timeouts of unsuspended waiting
    if let Some(tf) = fault {
        let n = eofs.iter().filter(|t| **t < tf).count();
        if n != k.limit as usize {
            rep.violate("suspended-time-counted", format!("{} what=transmissions-{}", cfg, if n < k.limit as usize { "fewer" } else { "more" }), &info.case, w(&format!("PositiveLimitReached after {} EOF transmissions; the limit is {}", n, k.limit)));
        }
        let first = eofs.first().cloned().unwrap_or(0);
        let waited = (tf - first).saturating_sub(r_t.min(tf).saturating_sub(s_t.min(tf)));
        if waited + 20_000 < k.limit as u64 * ta {
            rep.violate("suspended-time-counted", format!("{} what=fault-early", cfg), &info.case, w(&format!("PositiveLimitReached after {:.3}s of unsuspended waiting; {} x {} s are due", waited as f64 / 1e6, k.limit, k.ta)));
        }
        rep.count("c17_suspend_limit_faults_judged");
    }
    rep.nontrivial(case_sig(info, log));
}

/// keepalive family: the peer is heard more often than once per inactivity timeout, so the sender never declares
/// inactivity (on top of the general timing rules)
pub fn judge_c17b_keepalive(info: &Info, log: &RunLog, rep: &mut Report) {
    judge_c17b(info, log, rep);
    let d = Dig::new(log);
    if let Some(id) = d.id(0) {
        rep.count("c17_keepalive_runs_judged");
        if let Some(f) = d.faults(0, id).iter().find(|f| f.2.condition == Condition::InactivityDetected) {
            let last = d.arrivals(0, id).iter().filter(|a| a.1 <= f.1).map(|a| (a.1, a.2)).last();
            rep.violate("inactivity-declared-while-peer-is-heard", format!("cfg={} last-heard={}", info.knobs[0].shape(), last.map(|l| kind_short(l.1)).unwrap_or("-")), &info.case, witness(log, info, &format!("the sender declared InactivityDetected at {:.3}s although it had heard its peer at {:.3}s (inactivity timeout {} s x limit {})", f.1 as f64 / 1e6, last.map(|l| l.0).unwrap_or(0) as f64 / 1e6, info.knobs[0].ti, info.knobs[0].limit)));
        }
    }
}

pub fn judge_c17b(info: &Info, log: &RunLog, rep: &mut Report) {
    let d = Dig::new(log);
    count_observed(rep, log);
    let t = &info.transfers[0];
    let id = match d.id(0) {
        Some(i) => i,
        None => return,
    };
    let w = |head: &str| witness(log, info, head);
    const SLACK: u64 = 10_000; // 10 ms: queueing of the emission behind the 1 ms/PDU pacing
    const TAU: u64 = 50_000; // late side only
    let mut judged = 0;
    for ent in [t.src, t.dst] {
        let k = &info.knobs[ent];
        let l = k.limit as u64;
        let role = if ent == t.src { "sender" } else { "receiver" };
        let emits = d.emits(ent, id);
        let arrs = d.arrivals(ent, id);
        let faults = d.faults(ent, id);
        let mut seen: Vec<Condition> = vec![];
        for (fi, tf, f) in &faults {
            // with an Ignore handler the same fault is re-declared at once; judge the first of each condition
            if seen.contains(&f.condition) {
                continue;
            }
            seen.push(f.condition);
            let action = k.handlers.iter().find(|h| h.0 == f.condition).map(|h| h.1.clone()).unwrap_or(FaultHandlerAction::Cancel);
            let key0 = format!("role={} cond={:?} cfg={} L={}", role, f.condition, k.shape(), l);
            // ---------------- timing
            let mut retriggered = false;
            let (xs, answers, period, what): (Vec<u64>, Vec<u64>, u64, &str) = match (f.condition, ent == t.src) {
                (Condition::PositiveLimitReached, true) => (emits.iter().filter(|e| e.3 == Kind::Eof).map(|e| e.1).collect(), arrs.iter().filter(|a| a.2 == Kind::AckEof).map(|a| a.1).collect(), k.ta as u64 * 1_000_000, "EOF"),
                (Condition::PositiveLimitReached, false) => (emits.iter().filter(|e| e.3 == Kind::Finished).map(|e| e.1).collect(), arrs.iter().filter(|a| a.2 == Kind::AckFin).map(|a| a.1).collect(), k.ta as u64 * 1_000_000, "Finished"),
                (Condition::NakLimitReached, false) => {
                    // rounds of NAK PDUs (PDUs of one round leave within 50 ms); progress = new file bytes
                    let mut rounds: Vec<u64> = vec![];
                    for e in emits.iter().filter(|e| e.3 == Kind::Nak) {
                        // a round is dated by its last PDU
                        if rounds.last().map(|r| e.1 > *r + 50_000).unwrap_or(true) {
                            rounds.push(e.1);
                        } else if let Some(r) = rounds.last_mut() {
                            *r = e.1;
                        }
                    }
                    let mut cov = vec![false; t.content.len() + 64];
                    let mut prog = vec![];
                    for a in arrs.iter() {
                        if let PDUPayload::FileData(FileDataPDU::Unsegmented(u)) = &a.3.payload {
                            let mut newb = false;
                            for i in 0..u.file_data.len() {
                                if let Some(c) = cov.get_mut(u.offset as usize + i) {
                                    if !*c {
                                        *c = true;
                                        newb = true;
                                    }
                                }
                            }
                            if newb {
                                prog.push(a.1);
                            }
                        }
                    }
                    // a duplicate EOF or a Prompt makes the receiver repeat its NAK at once and restart the timer
                    // without an expiry: such a round is not a timer-driven retransmission
                    let trig: Vec<u64> = arrs.iter().filter(|a| matches!(a.2, Kind::Eof | Kind::Prompt)).map(|a| a.1).collect();
                    let run_now = unanswered_before(&rounds, &prog, *tf);
                    let d_us = match k.nak {
                        cfdp_core::daemon::NakProcedure::Immediate(x) | cfdp_core::daemon::NakProcedure::Deferred(x) => x.as_micros() as u64,
                    };
                    retriggered = run_now.iter().skip(1).any(|r| trig.iter().any(|x| *x <= *r && *r <= *x + d_us + 50_000));
                    (rounds, prog, k.tn as u64 * 1_000_000, "NAK")
                }
                (Condition::InactivityDetected, _) => {
                    // reference: the last PDU delivered to it (and, at the sender, the last retransmission it made / the EOF in unack+closure)
                    // (a PDU arriving at the very instant of the expiry may be processed after it)
                    let mut refs: Vec<u64> = arrs.iter().map(|a| a.1).filter(|x| x < tf).collect();
                    if ent == t.src {
                        let mut first_pass_end = 0usize;
                        for e in emits.iter() {
                            if e.3 == Kind::Eof {
                                first_pass_end = e.0;
                                break;
                            }
                        }
                        refs.extend(emits.iter().filter(|e| e.1 < *tf && ((e.3 == Kind::Eof && t.mode != ack()) || (e.0 > first_pass_end && first_pass_end > 0 && matches!(e.3, Kind::FileData | Kind::Metadata)))).map(|e| e.1));
                    } else {
                        refs.push(d.spans(id, TaskKind::Recv).first().map(|s| s.start_us).unwrap_or(0));
                    }
                    let r = refs.iter().max().cloned().unwrap_or(0);
                    let need = l * k.ti as u64 * 1_000_000;
                    judged += 1;
                    rep.count(&format!("c17_timing_judged:{}:Inactivity", role));
                    if *tf + SLACK < r + need {
                        rep.violate("limit-fault-too-early", format!("{} timer=inactivity", key0), &info.case, w(&format!("{} declared InactivityDetected {:.3}s after the last PDU exchanged with it; configured {} x {} s", role, (*tf - r) as f64 / 1e6, l, k.ti)));
                    } else if *tf > r + need + l * TAU + SLACK && ent == t.dst {
                        rep.violate("limit-fault-too-late", format!("{} timer=inactivity", key0), &info.case, w(&format!("{} declared InactivityDetected {:.3}s after the last PDU delivered to it; configured {} x {} s", role, (*tf - r) as f64 / 1e6, l, k.ti)));
                    }
                    (vec![], vec![], 0, "")
                }
                _ => (vec![], vec![], 0, ""),
            };
            if period > 0 {
                let run = unanswered_before(&xs, &answers, *tf);
                judged += 1;
                rep.count(&format!("c17_timing_judged:{}:{}", role, what));
                if retriggered {
                    // the count of transmissions says nothing about the count of expirations here: only the distance
                    // of the fault from the last transmission is judged
                    rep.count("c17_nak_runs_with_retriggered_round");
                    if let Some(last) = run.last() {
                        if *tf + SLACK < *last + period {
                            rep.violate("limit-fault-too-early", format!("{} timer={}", key0, what), &info.case, w(&format!("{} declared {:?} {:.3}s after its last {} transmission; the timeout is {} s", role, f.condition, (*tf - last) as f64 / 1e6, what, period / 1_000_000)));
                        }
                    }
                } else if run.len() as u64 != l {
                    rep.violate("limit-fault-wrong-count", format!("{} pdu={} transmissions={}", key0, what, if (run.len() as u64) < l { "fewer" } else { "more" }), &info.case, w(&format!("{} declared {:?} after {} consecutive unanswered {} transmissions; configured limit {}", role, f.condition, run.len(), what, l)));
                } else {
                    for p in run.windows(2) {
                        if p[1] + SLACK < p[0] + period {
                            rep.violate("retransmission-too-early", format!("{} pdu={}", key0, what), &info.case, w(&format!("{} retransmitted {} after {:.3}s; the timeout is {} s", role, what, (p[1] - p[0]) as f64 / 1e6, period / 1_000_000)));
                        } else if p[1] > p[0] + period + TAU + SLACK {
                            rep.violate("retransmission-too-late", format!("{} pdu={}", key0, what), &info.case, w(&format!("{} retransmitted {} after {:.3}s; the timeout is {} s", role, what, (p[1] - p[0]) as f64 / 1e6, period / 1_000_000)));
                        }
                    }
                    let last = *run.last().unwrap();
                    if *tf + SLACK < last + period {
                        rep.violate("limit-fault-too-early", format!("{} timer={}", key0, what), &info.case, w(&format!("{} declared {:?} {:.3}s after its last {} transmission; the timeout is {} s", role, f.condition, (*tf - last) as f64 / 1e6, what, period / 1_000_000)));
                    } else if *tf > last + period + TAU + SLACK {
                        rep.violate("limit-fault-too-late", format!("{} timer={}", key0, what), &info.case, w(&format!("{} declared {:?} {:.3}s after its last {} transmission; the timeout is {} s", role, f.condition, (*tf - last) as f64 / 1e6, what, period / 1_000_000)));
                    }
                    let first = run[0];
                    if *tf + SLACK < first + l * period {
                        rep.violate("limit-fault-too-early", format!("{} timer={} total", key0, what), &info.case, w(&format!("{} declared {:?} {:.3}s after the first unanswered {}; configured {} x {} s", role, f.condition, (*tf - first) as f64 / 1e6, what, l, period / 1_000_000)));
                    }
                }
            }
            // ---------------- the configured handler runs
            rep.count(&format!("c17_handler_judged:{:?}", action));
            // PDUs of a transaction re-created later by the daemon (same id) are not this transaction's
            let my_kind = if ent == t.src { TaskKind::Send } else { TaskKind::Recv };
            let next_start = d.spans(id, my_kind).iter().map(|s| s.start_us).filter(|s| *s > *tf).min().unwrap_or(u64::MAX);
            let after: Vec<_> = emits.iter().filter(|e| e.1 > *tf + SLACK && e.1 < next_start).collect();
            // the task that declared the fault: the earliest one still alive at that instant (a PDU arriving in the
            // same instant may already have made the daemon start a new one)
            let end = d.spans(id, if ent == t.src { TaskKind::Send } else { TaskKind::Recv }).iter().filter(|s| s.start_us <= *tf && s.end_us.map(|e| e + SLACK >= *tf).unwrap_or(true)).map(|s| s.end_us).next().flatten();
            let hk = format!("{} action={:?}", key0, action);
            match action {
                FaultHandlerAction::Abandon => {
                    let ab = d.abandons(ent, id).iter().any(|a| a.1 <= *tf + SLACK && a.0 > *fi || a.1 == *tf);
                    if !ab {
                        rep.violate("handler-not-applied", format!("{} missing=abandon-indication", hk), &info.case, w("handler Abandon: no Abandon indication followed the fault"));
                    }
                    if !after.is_empty() {
                        rep.violate("handler-not-applied", format!("{} pdus-after-abandon", hk), &info.case, w(&format!("handler Abandon: {} PDUs were emitted after the fault", after.len())));
                    }
                    if end.map(|e| e > *tf + SLACK).unwrap_or(true) {
                        rep.violate("handler-not-applied", format!("{} not-ended", hk), &info.case, w("handler Abandon: the transaction did not end at once"));
                    }
                }
                FaultHandlerAction::Suspend => {
                    let su = d.inds(ent, id, IndKind::Suspended).iter().any(|s| s.1 <= *tf + SLACK && s.1 + SLACK >= *tf);
                    if !su {
                        rep.violate("handler-not-applied", format!("{} missing=suspended-indication", hk), &info.case, w("handler Suspend: no Suspended indication followed the fault"));
                    }
                    // a cancel (arriving from the peer, or issued by the user) ends the suspension
                    let cancel_t = arrs.iter().filter(|a| a.1 > *tf && match &a.3.payload {
                        PDUPayload::Directive(Operations::EoF(x)) => x.condition != Condition::NoError,
                        PDUPayload::Directive(Operations::Finished(x)) => x.condition != Condition::NoError,
                        _ => false,
                    }).map(|a| a.1).min().unwrap_or(u64::MAX);
                    let bad = after.iter().filter(|e| e.1 < cancel_t && matches!(e.3, Kind::Metadata | Kind::FileData | Kind::Eof | Kind::Nak | Kind::Finished)).count();
                    if bad > 0 {
                        rep.violate("handler-not-applied", format!("{} pdus-after-suspend", hk), &info.case, w(&format!("handler Suspend: {} data/EOF/NAK/Finished PDUs were emitted after the fault", bad)));
                    }
                }
                FaultHandlerAction::Ignore => {
                    // no cancel handshake: no EOF / Finished carrying the fault condition
                    let hs = emits.iter().any(|e| e.1 + SLACK >= *tf && match &e.4.payload {
                        PDUPayload::Directive(Operations::EoF(x)) => x.condition == f.condition,
                        PDUPayload::Directive(Operations::Finished(x)) => x.condition == f.condition && f.condition != Condition::FileChecksumFailure,
                        _ => false,
                    });
                    if hs {
                        rep.violate("handler-not-applied", format!("{} cancel-handshake-started", hk), &info.case, w("handler Ignore: a cancel handshake carrying the fault condition was started"));
                    }
                    if d.abandons(ent, id).iter().any(|a| a.1 <= *tf + SLACK && a.1 + SLACK >= *tf && a.2.condition == f.condition) {
                        rep.violate("handler-not-applied", format!("{} abandoned", hk), &info.case, w("handler Ignore: the transaction was abandoned"));
                    }
                }
                FaultHandlerAction::Cancel if faults.iter().any(|g| g.1 <= *tf && g.2.condition != f.condition && matches!(g.2.condition, Condition::PositiveLimitReached | Condition::InactivityDetected) && k.handlers.iter().any(|h| h.0 == g.2.condition && h.1 == FaultHandlerAction::Ignore)) => {
                    // an earlier, ignored ACK-limit or inactivity fault left that counter at its limit: the cancel
                    // handshake that starts now is cut short by it at once (abandon). Two faults interacting; not judged.
                    rep.count("c17_cancel_after_ignored_limit(not judged)");
                }
                FaultHandlerAction::Cancel if ent == t.dst && f.condition == Condition::InactivityDetected => {
                    // the receiver's inactivity counter stays at its limit after the fault: the cancel it starts is
                    // abandoned at its next timer wake-up (at once when that coincides). Judged on the indication.
                    rep.count("c17_receiver_inactivity_cancel(indication only)");
                    if !d.finished(ent, id).iter().any(|x| x.1 + SLACK >= *tf && x.1 <= *tf + SLACK && x.2.report.condition == f.condition) {
                        rep.violate("handler-not-applied", format!("{} no-cancel-indication", hk), &info.case, w("handler Cancel (or none configured): the receiver did not report the transaction cancelled with the fault condition"));
                    }
                }
                FaultHandlerAction::Cancel => {
                    let want_pdu = ent == t.src || t.mode == ack() || k.closure;
                    if want_pdu {
                        let hs = emits.iter().any(|e| e.1 + SLACK >= *tf && e.1 <= *tf + 1_000_000 && match &e.4.payload {
                            PDUPayload::Directive(Operations::EoF(x)) => ent == t.src && x.condition == f.condition,
                            PDUPayload::Directive(Operations::Finished(x)) => ent == t.dst && x.condition == f.condition,
                            _ => false,
                        });
                        if !hs {
                            rep.violate("handler-not-applied", format!("{} no-cancel-handshake", hk), &info.case, w("handler Cancel (or none configured): no EOF / Finished carrying the fault condition followed the fault"));
                        }
                    }
                    if d.abandons(ent, id).iter().any(|a| a.1 <= *tf + SLACK && a.1 + SLACK >= *tf && a.2.condition == f.condition) {
                        rep.violate("handler-not-applied", format!("{} abandoned-at-once", hk), &info.case, w("handler Cancel: the transaction was abandoned at the fault instead of cancelled"));
                    }
                }
            }
        }
    }
    // ---------------- a limit that was reached must be declared (under its own condition)
    for ent in [t.src, t.dst] {
        let k = &info.knobs[ent];
        let l = k.limit as u64;
        let role = if ent == t.src { "sender" } else { "receiver" };
        let my_kind = if ent == t.src { TaskKind::Send } else { TaskKind::Recv };
        let span = match d.spans(id, my_kind).first().cloned().cloned() {
            Some(s) => s,
            None => continue,
        };
        let end = span.end_us.unwrap_or(log.end_us);
        let arrs = d.arrivals(ent, id);
        let faults = d.faults(ent, id);
        // the transaction is out of the normal regime once it is suspended, cancelled or has faulted with a
        // handler other than Ignore
        let regime_end = {
            let mut x = end;
            if let Some(s) = d.inds(ent, id, IndKind::Suspended).first() {
                x = x.min(s.1);
            }
            for (_, tf, f) in &faults {
                let a = k.handlers.iter().find(|h| h.0 == f.condition).map(|h| h.1.clone()).unwrap_or(FaultHandlerAction::Cancel);
                if a != FaultHandlerAction::Ignore {
                    x = x.min(*tf);
                }
            }
            for p in d.prims(ent, 0) {
                if p.3 && matches!(p.2, PrimKind::Cancel | PrimKind::Suspend) {
                    x = x.min(p.1);
                }
            }
            // a cancel arriving from the peer
            for a in &arrs {
                let c = match &a.3.payload {
                    PDUPayload::Directive(Operations::EoF(e)) => e.condition != Condition::NoError,
                    PDUPayload::Directive(Operations::Finished(f)) => f.condition != Condition::NoError,
                    _ => false,
                };
                if c {
                    x = x.min(a.1);
                }
            }
            x
        };
        if ent == t.dst {
            // receiver inactivity: L x Ti after the last PDU delivered to it
            let mut last = span.start_us;
            let mut pts: Vec<u64> = arrs.iter().map(|a| a.1).filter(|x| *x >= span.start_us).collect();
            pts.push(u64::MAX);
            for p in pts {
                let due = last + l * k.ti as u64 * 1_000_000;
                if p > due + l * TAU + SLACK && regime_end > due + l * TAU + SLACK {
                    rep.count("c17_expected_faults_judged:receiver:Inactivity");
                    if !faults.iter().any(|f| f.2.condition == Condition::InactivityDetected && f.1 + SLACK >= due && f.1 <= due + l * TAU + SLACK) {
                        rep.violate("limit-fault-missing", format!("role={} cond=InactivityDetected cfg={} L={} handlers={}", role, k.shape(), l, k.handlers.len().min(1)), &info.case, w(&format!("nothing was delivered to the {} for {} x {} s after {:.3}s, yet no InactivityDetected fault was declared at {:.3}s", role, l, k.ti, last as f64 / 1e6, due as f64 / 1e6)));
                    }
                    break;
                }
                if p == u64::MAX {
                    break;
                }
                last = p;
            }
        }
    }
    if judged > 0 {
        rep.nontrivial(case_sig(info, log));
        rep.sample(sample_json(log, info, 40));
    }
}

pub fn run_c17b(rep_out: &mut Report, tier: &str, seed: u64, replay: Option<&str>) {
    if let Some(r) = replay {
        let (_, fam, idx, sd) = parse_case(r);
        let j: fn(&Info, &RunLog, &mut Report) = if fam == "keepalive" { judge_c17b_keepalive } else if fam == "suspend" { judge_c17b_suspend } else { judge_c17b };
        rep_out.merge(run_single(c17_case(&fam, idx, sd).expect("case"), j));
        return;
    }
    let n = c17_space().len();
    let stride = if tier == "thorough" { 1 } else { 3 };
    let off = (seed % stride as u64) as usize;
    let m = (n - off + stride - 1) / stride;
    let rep = run_cases(m, "c17b-sys", move |i| c17_case("sys", off + i * stride, seed), judge_c17b);
    rep_out.merge(rep);
    rep_out.add("cases:sys", m as u64);
    rep_out.add("cases:sys-space", n as u64);
    let nm = if tier == "thorough" { 600_000 } else { 1_500 };
    rep_out.merge(run_cases(nm, "c17b-mixed", move |i| c17_case("mixed", i, seed), judge_c17b));
    rep_out.add("cases:mixed", nm as u64);
    let nk = if tier == "thorough" { 20_000 } else { 300 };
    rep_out.merge(run_cases(nk, "c17b-keepalive", move |i| c17_case("keepalive", i, seed), judge_c17b_keepalive));
    rep_out.add("cases:keepalive", nk as u64);
    let nsu = if tier == "thorough" { 30_000 } else { 400 };
    rep_out.merge(run_cases(nsu, "c17b-suspend", move |i| c17_case("suspend", i, seed), judge_c17b_suspend));
    rep_out.add("cases:suspend", nsu as u64);
    let np = if tier == "thorough" { 3_000 } else { 60 };
    rep_out.merge(run_cases(np, "c17b-prompt", move |i| c17_case("prompt", i, seed), judge_c17b));
    rep_out.add("cases:prompt", np as u64);
}

pub fn meta_c17b() -> Meta {
    Meta {
        property: "C17",
        level: "exploration",
        rule: "protocol level: 4-segment file, timer grid (Ti,Ta,Tn,L) in {(10,3,4,3),(4,1,2,2),(20,5,2,5),(6,2,9,1),(3,1,5,3),(1,2,2,2),(2,3,1,2)} x handler for every timer/checksum condition in {unset, Cancel, Ignore, Suspend, Abandon} x 4 NAK procedures x scenarios {reverse link dark from each of its first 4 PDUs, forward link dark from each of its first 7 PDUs, each data segment lost together with all its retransmissions, one segment recovering while its neighbour never does (progress resets the count), a corrupted byte without CRC, every Finished lost} plus unacknowledged+closure variants (complete in thorough, every 3rd by seed in quick); mixed = seeded scenarios of the same kinds with a different handler per condition (NAK limit often ignored, so that a second, different fault follows in the same transaction); prompt = a Prompt issued early in a data phase of 1.3-2.6 ACK timeouts (thousands of segments), then a peer that is never heard; keepalive = a scripted receiver that acknowledges the EOF and then sends only Keep Alive PDUs, closer together than the inactivity timeout, for longer than the inactivity limit, then Finished; suspend = the sender waits for the ACK of its EOF from a silent peer and is suspended for 0.5 .. L+1 ACK timeouts (suspended time counts neither towards the next retransmission nor towards the limit). Oracle on virtual timestamps; a receiver inactivity limit that was reached must also have been declared under its own condition. distinct_nontrivial = distinct (config, event-order) signatures among runs in which at least one limit fault was timed.".into(),
        exhaustive: false,
        assumptions: vec!["never-earlier is checked with 10 ms slack for the 1 ms/PDU pacing of the simulated link; never-later with an additional 50 ms per period".into(), "with an Ignore handler the implementation re-declares the same fault at every further expiry; only the first declaration of each condition is judged".into()],
        require: vec![("c17_timing_judged:sender:EOF".into(), 30), ("c17_timing_judged:receiver:Finished".into(), 30), ("c17_timing_judged:receiver:NAK".into(), 30), ("c17_timing_judged:receiver:Inactivity".into(), 30), ("c17_handler_judged:Abandon".into(), 20), ("c17_handler_judged:Suspend".into(), 20), ("c17_handler_judged:Ignore".into(), 20), ("c17_handler_judged:Cancel".into(), 40), ("c17_suspend_limit_faults_judged".into(), 100), ("c17_keepalive_runs_judged".into(), 100)],
        extra: vec![],
    }
}
