//! C11: concurrent transactions are isolated; stray PDUs cannot disturb the daemon.
use crate::e1::*;
use crate::p_peer::mk_pdu;
use crate::p_proto::parse_case;
use crate::report::{Meta, Report};
use crate::sim::*;
use crate::simgen::*;
use crate::util::Rng;
use cfdp_core::pdu::*;
use cfdp_core::transaction::TransactionID;
use cfdp_daemon::verif::TaskKind;
use std::collections::HashSet;

fn ack() -> TransmissionMode {
    TransmissionMode::Acknowledged
}
fn unack() -> TransmissionMode {
    TransmissionMode::Unacknowledged
}

fn header(src: u16, dst: u16, seq: u16, dir: Direction, mode: TransmissionMode, crc: bool) -> PDUHeader {
    PDUHeader {
        version: U3::One,
        pdu_type: PDUType::FileDirective,
        direction: dir,
        transmission_mode: mode,
        crc_flag: if crc { CRCFlag::Present } else { CRCFlag::NotPresent },
        large_file_flag: FileSizeFlag::Small,
        pdu_data_field_length: 0,
        segmentation_control: SegmentationControl::NotPreserved,
        segment_metadata_flag: SegmentedData::NotPresent,
        source_entity_id: VariableID::from(src),
        transaction_sequence_number: VariableID::from(seq),
        destination_entity_id: VariableID::from(dst),
    }
}

/// stray id ranges: 20000.. = to-sender strays (must start nothing), 30000.. = to-receiver strays (start a
/// receive transaction that must end by its own limits), entity 99 has no transport
fn stray(rng: &mut Rng, n_ent: usize, to: Ent, k: usize) -> (Vec<u8>, String) {
    let ent_id = |e: Ent| (e + 1) as u16;
    let other = (to + 1 + rng.usize(n_ent - 1)) % n_ent;
    let mode = if rng.bool() { ack() } else { unack() };
    match rng.below(7) {
        0 | 1 => {
            // response addressed to a sender that does not exist here - or (half of them) a response of a
            // transaction between two OTHER entities (or misrouted back to its own receiver) that strays in here
            let (src, dst, name) = if rng.bool() {
                (ent_id(to), ent_id(other), "to-sender-unknown")
            } else {
                let third = (0..n_ent).find(|e| *e != to && *e != other).unwrap_or(to);
                (ent_id(other), ent_id(third), "to-sender-foreign")
            };
            let h = header(src, dst, 20000 + k as u16, Direction::ToSender, mode, false);
            let pl = match rng.below(4) {
                0 => Operations::Ack(PositiveAcknowledgePDU { directive: PDUDirective::EoF, directive_subtype_code: ACKSubDirective::Other, condition: Condition::NoError, transaction_status: TransactionStatus::Active }),
                1 => Operations::Nak(NegativeAcknowledgmentPDU { start_of_scope: 0, end_of_scope: 64, segment_requests: vec![SegmentRequestForm { start_offset: 0, end_offset: 64 }] }),
                2 => Operations::Finished(Finished { condition: Condition::NoError, delivery_code: DeliveryCode::Complete, file_status: FileStatusCode::Retained, filestore_response: vec![], fault_location: None }),
                _ => Operations::KeepAlive(KeepAlivePDU { progress: 5 }),
            };
            (mk_pdu(&h, Direction::ToSender, PDUPayload::Directive(pl)).encode(), name.into())
        }
        2 => {
            // names an entity without transport
            let (s, d, dir) = if rng.bool() { (99, ent_id(to), Direction::ToReceiver) } else { (ent_id(to), 99, Direction::ToSender) };
            let h = header(s, d, 20500 + k as u16, dir.clone(), mode, false);
            (mk_pdu(&h, dir, PDUPayload::Directive(Operations::EoF(EndOfFile { condition: Condition::NoError, checksum: 0, file_size: 10, fault_location: None }))).encode(), "no-transport-entity".into())
        }
        3 | 4 => {
            // to-receiver PDU of a transaction nobody started
            let h = header(ent_id(other), ent_id(to), 30000 + k as u16, Direction::ToReceiver, mode, false);
            let pl = match rng.below(3) {
                0 => {
                    let n = 1 + rng.usize(40);
                    PDUPayload::FileData(FileDataPDU::Unsegmented(UnsegmentedFileData { offset: rng.below(200), file_data: rng.bytes(n) }))
                }
                1 => PDUPayload::Directive(Operations::EoF(EndOfFile { condition: Condition::NoError, checksum: rng.next_u64() as u32, file_size: rng.below(300), fault_location: None })),
                _ => PDUPayload::Directive(Operations::Metadata(MetadataPDU { closure_requested: rng.bool(), checksum_type: cfdp_core::filestore::ChecksumType::Modular, file_size: rng.below(300), source_filename: "stray_src".into(), destination_filename: format!("stray_dst{}", k).into(), options: vec![] })),
            };
            (mk_pdu(&h, Direction::ToReceiver, pl).encode(), "to-receiver-unknown".into())
        }
        5 => {
            let n = 1 + rng.usize(60);
            (rng.bytes(n), "random-bytes".into())
        }
        _ => {
            let h = header(ent_id(other), ent_id(to), 30000 + k as u16, Direction::ToReceiver, mode, true);
            let mut b = mk_pdu(&h, Direction::ToReceiver, PDUPayload::Directive(Operations::EoF(EndOfFile { condition: Condition::NoError, checksum: 1, file_size: 10, fault_location: None }))).encode();
            let cut = 1 + rng.usize(b.len() - 1);
            b.truncate(cut);
            (b, "truncated".into())
        }
    }
}

pub fn c11_case(fam: &str, idx: usize, seed: u64) -> Option<Case> {
    let case = format!("C11:{}:{}:{}", fam, idx, seed);
    let mut rng = Rng::derive(seed, 1101, idx as u64);
    match fam {
        "rand" => {
            let n_ent = 2 + rng.usize(2);
            let mut k = Knobs::base();
            k.seg = *rng.pick(&[32u16, 64]);
            k.limit = 4;
            k.nak = nak_procs()[rng.usize(4)];
            k.crc = rng.bool();
            k.closure = rng.bool();
            let seg = k.seg as usize;
            let cfg = k.config();
            let n_tr = 4 + rng.usize(if idx % 4 == 0 { 37 } else { 10 });
            // every 5th scenario: a few long files delivered in a burst, so that the per-transaction queues fill up
            let burst = idx % 5 == 2;
            let mut transfers = vec![];
            for t in 0..n_tr {
                let src = rng.usize(n_ent);
                let dst = (src + 1 + rng.usize(n_ent - 1)) % n_ent;
                let size = if burst && t < 3 { (130 + rng.usize(300)) * seg - rng.usize(seg) } else { *rng.pick(&[0usize, 9, seg, seg + 1, 3 * seg, 5 * seg + 7, 2 * seg - 1]) };
                // tagged content: the transfer's index is written all over it
                let mut c: Vec<u8> = (0..size).map(|i| ((i * 7 + t * 31) % 251) as u8).collect();
                for (i, b) in c.iter_mut().enumerate() {
                    if i % 8 < 2 {
                        *b = (t as u8).wrapping_add(i as u8 % 8);
                    }
                }
                transfers.push(TransferSpec { src, dst, mode: if rng.chance(1, 3) { unack() } else { ack() }, content: c, src_name: format!("src{}.bin", t), dst_name: format!("dst{}.bin", t), requests: vec![], start_ms: rng.below(60), stale_dest: None });
            }
            let entities = (0..n_ent).map(|i| EntityCfg { id: (i + 1) as u16, config: cfg.clone(), scripted: false }).collect();
            let mut sc = Scenario {
                case: case.clone(),
                seed: rng.next_u64(),
                entities,
                transfers,
                rules: vec![],
                scripts: vec![],
                peers: vec![],
                latency_ms: *rng.pick(&[0u64, 1, 5, 20]),
                tx_ms: if rng.bool() { 1 } else { 0 },
                paced: rng.bool(),
                observe_ms: 3 * bound_ms(&cfg, 2000),
                min_observe_ms: 3_000,
                probe: true,
                final_reports: false,
                plant: vec![],
        dropper: None,
        seq_start: None,
        preset_ids: vec![],
        forget_puts: vec![],
        stall_after: vec![],
        plant_sparse: vec![],
            };
            if burst {
                sc.paced = false;
                sc.tx_ms = 0;
                sc.latency_ms = 0;
            }
            // sequence numbers start just below the top of their width in half of the scenarios: the ids
            // handed out must stay distinct across the wrap
            if rng.bool() {
                sc.seq_start = Some((0..n_ent).map(|_| match rng.below(3) {
                    0 => VariableID::from(u16::MAX - rng.below(6) as u16),
                    1 => VariableID::from(u32::MAX - rng.below(6) as u32),
                    _ => VariableID::from(u64::MAX - rng.below(6)),
                }).collect());
            }
            // loss within the hypothesis: at most 3 drops per unordered pair of entities (limit 4), plus dups / delays
            for a in 0..n_ent {
                for b in (a + 1)..n_ent {
                    for _ in 0..rng.usize(4) {
                        let (f, t) = if rng.bool() { (a, b) } else { (b, a) };
                        sc.rules.push(Rule { from: f, to: t, m: Matcher::Nth(rng.usize(60)), a: Action::Drop });
                    }
                    for _ in 0..rng.usize(3) {
                        let (f, t) = if rng.bool() { (a, b) } else { (b, a) };
                        let act = if rng.bool() { Action::Dup(1, rng.below(5)) } else { Action::Delay(1 + rng.below(30)) };
                        sc.rules.push(Rule { from: f, to: t, m: Matcher::Nth(rng.usize(60)), a: act });
                    }
                }
            }
            // some Puts are fire-and-forget (the user does not wait for the id); their transfers are judged by what
            // arrives, and the ids the daemons announce (Transaction indications) must still be pairwise distinct
            if rng.chance(1, 3) {
                for tr in 0..sc.transfers.len() {
                    if rng.chance(1, 4) && tr + 1 < sc.transfers.len() {
                        sc.forget_puts.push(tr);
                    }
                }
            }
            // strays, replays and hostile bytes
            let n_stray = rng.usize(8);
            let mut kinds = vec![];
            for s in 0..n_stray {
                let to = rng.usize(n_ent);
                let (bytes, kind) = stray(&mut rng, n_ent, to, idx % 400 + s * 401);
                kinds.push(kind);
                sc.scripts.push(Script { trig: Trigger::At(rng.below(400)), delay_ms: 0, act: Act::Inject(to, bytes) });
            }
            // responses (Finished, ACKs) delivered once more to their sender shortly after the exchange: the
            // send transaction has ended but the daemon may not have cleaned up after it yet
            for _ in 0..rng.usize(4) {
                let e = rng.usize(n_ent);
                let kind = *rng.pick(&[Kind::Finished, Kind::Finished, Kind::AckEof, Kind::Nak]);
                sc.scripts.push(Script { trig: Trigger::At(150 + rng.below(1800)), delay_ms: 0, act: Act::RedeliverKind(e, kind, rng.usize(6)) });
                kinds.push(format!("late-{}", kind_short(kind)));
            }
            for _ in 0..rng.usize(3) {
                // replay of a recorded PDU, possibly long after its transaction has ended
                sc.scripts.push(Script { trig: Trigger::At(*rng.pick(&[50u64, 300, 2500, 8000])), delay_ms: 0, act: Act::Redeliver(rng.usize(n_ent), rng.usize(30)) });
                kinds.push("replay".into());
            }
            let desc = format!("{} daemons, {} transfers ({} unack), {} faults=[{}] strays={:?} paced={} lat={}ms", n_ent, n_tr, sc.transfers.iter().filter(|t| t.mode == unack()).count(), k.describe(), rules_desc(&sc.rules), kinds, sc.paced, sc.latency_ms);
            let mut cs = Case::from(sc, &k, desc, true);
            cs.info.knobs = (0..n_ent).map(|_| k.clone()).collect();
            Some(cs)
        }
        _ => None,
    }
}

pub fn judge_c11(info: &Info, log: &RunLog, rep: &mut Report) {
    let d = Dig::new(log);
    count_observed(rep, log);
    let w = |head: &str| witness(log, info, head);
    let n_ent = info.knobs.len();
    rep.count(&format!("c11_runs:{}-daemons", n_ent));
    if log.budget_exceeded {
        rep.violate("event-budget", "".into(), &info.case, w("event budget exceeded"));
        return;
    }
    // 1. Put ids: answered and pairwise distinct
    let mut seen: HashSet<TransactionID> = HashSet::new();
    for (tr, _t) in info.transfers.iter().enumerate() {
        match d.id(tr) {
            None if info.forgotten.contains(&tr) => rep.count("c11_fire_and_forget_puts"),
            None => rep.violate("put-not-answered", "".into(), &info.case, w(&format!("Put of transfer {} returned no transaction id", tr))),
            Some(id) => {
                rep.count("c11_put_ids_checked");
                if !seen.insert(id) {
                    rep.violate("duplicate-transaction-id", "".into(), &info.case, w(&format!("transaction id {} was handed out twice", id)));
                }
            }
        }
    }
    // 1b. the ids the daemons announce to their users (one Transaction indication per Put, also for the
    //     fire-and-forget ones) are pairwise distinct, and there is one per Put
    {
        let mut announced: HashSet<TransactionID> = HashSet::new();
        let mut n = 0usize;
        for r in &log.recs {
            if let Ev::Ind { ind: cfdp_core::daemon::Indication::Transaction(id), .. } = &r.ev {
                n += 1;
                if !announced.insert(*id) {
                    rep.violate("duplicate-transaction-id", "announced".into(), &info.case, w(&format!("transaction id {} was announced for two different Put requests", id)));
                }
            }
        }
        rep.add("c11_transaction_indications_checked", n as u64);
    }
    // 2./3. each transfer: its own content at its own destination, its own outcome
    let b = bound_us(info, 0);
    for (tr, t) in info.transfers.iter().enumerate() {
        let id = match d.id(tr) {
            Some(i) => i,
            None => continue,
        };
        let fin = d.dest_final(tr).cloned().flatten();
        let rs = d.first_success(t.dst, id);
        let ss = d.first_success(t.src, id);
        let mode = if t.mode == ack() { "ack" } else { "unack" };
        // whatever is under the destination name is the transfer's own file
        if let Some(c) = &fin {
            rep.count("c11_destinations_checked");
            // without a success report the destination may hold an incomplete copy (holes read as zeros,
            // tail missing) of the transfer's own file - never anything else
            let own_partial = rs.is_none() && c.len() <= t.content.len() && c.iter().zip(t.content.iter()).all(|(a, b)| a == b || *a == 0);
            if *c != t.content && !own_partial {
                let whose = info.transfers.iter().position(|o| o.content == *c);
                rep.violate("wrong-file-at-destination", format!("mode={} {}", mode, if whose.is_some() { "cross-wired" } else { "corrupt" }), &info.case, w(&format!("destination of transfer {} holds {} bytes that are not its source{}", tr, c.len(), whose.map(|o| format!(" (they are transfer {}'s)", o)).unwrap_or_default())));
            }
        }
        if rs.is_some() && fin.as_deref() != Some(t.content.as_slice()) {
            rep.violate("success-without-own-file", format!("mode={}", mode), &info.case, w(&format!("transfer {} was reported delivered but its destination does not hold its file", tr)));
        }
        if t.mode == ack() {
            rep.count("c11_ack_transfers_judged");
            let es = d.ended(id, TaskKind::Send).is_some();
            let er = d.ended(id, TaskKind::Recv).is_some();
            if rs.is_none() || ss.is_none() || !es || !er || fin.as_deref() != Some(t.content.as_slice()) {
                let mut faults: Vec<String> = vec![];
                for e in [t.src, t.dst] {
                    for f in d.faults(e, id) {
                        faults.push(format!("{:?}", f.2.condition));
                    }
                }
                faults.sort();
                faults.dedup();
                rep.violate("concurrent-transfer-failed", format!("cfg={} rcv-success={} snd-success={} ended={} faults={:?}", info.knobs[0].shape(), rs.is_some(), ss.is_some(), es && er, faults), &info.case, w(&format!("acknowledged transfer {} ({}), loss within the hypothesis, did not complete on both sides", tr, id)));
            }
        } else {
            rep.count("c11_unack_transfers_judged");
        }
    }
    // 4. the daemons are still there and serve
    if log.daemons_alive.iter().any(|a| !*a) {
        rep.violate("daemon-stopped", format!("alive={:?}", log.daemons_alive), &info.case, w("a daemon task ended"));
    }
    // 4c. once the sending entity has told its user that a transfer succeeded, that id is silent there: no further
    //     fault, abandon or second outcome (a late response PDU must not start anything at the sender)
    for (tr, t) in info.transfers.iter().enumerate() {
        let id = match d.id(tr) {
            Some(i) => i,
            None => continue,
        };
        if let Some((li, _)) = d.first_success(t.src, id) {
            rep.count("c11_checked:sender-silent-after-success");
            let later = log.recs.iter().enumerate().skip(li + 1).find(|(_, r)| matches!(&r.ev, Ev::Ind { ent, ind } if *ent == t.src && ind_id(ind) == id && match ind {
                cfdp_core::daemon::Indication::Fault(_) | cfdp_core::daemon::Indication::Abandon(_) => true,
                // (a duplicated Finished PDU that reaches the still-open transaction repeats the same success)
                cfdp_core::daemon::Indication::Finished(f) => !crate::sim::is_success(f),
                _ => false,
            }));
            if let Some((_, r)) = later {
                let what = match &r.ev {
                    Ev::Ind { ind, .. } => format!("{:?}", crate::sim::ind_kind(ind)),
                    _ => String::new(),
                };
                rep.violate("outcome-after-success-at-sender", format!("kind={}", what), &info.case, w(&format!("the sending entity reported {} for {} after it had reported that transfer successful", what, id)));
            }
        }
    }
    if let Some(p) = &log.probe {
        rep.count("c11_probes");
        if !(p.recv_success && p.send_success && p.file_ok && p.report_answered) {
            rep.violate("daemon-stops-serving", format!("recv={} send={} file={} report={}", p.recv_success, p.send_success, p.file_ok, p.report_answered), &info.case, w("after the run a fresh transfer / Report was not served"));
        }
    }
    // 5. stray traffic: to-sender strays and PDUs naming an unknown entity start nothing;
    //    receive transactions started by strays or replays end by their own limits
    for s in &d.tasks {
        let seq = s.id.1.to_u64();
        if (20000..30000).contains(&seq) {
            rep.violate("stray-started-transaction", format!("kind={:?}", s.kind), &info.case, w(&format!("a stray PDU that cannot legitimately start a transaction started {} ({:?})", s.id, s.kind)));
        }
        let last_arr = log.recs.iter().filter_map(|r| match &r.ev {
            Ev::Arrive { pdu: Some(p), .. } if pdu_tid(p) == s.id && s.end_us.map(|e| r.t_us <= e).unwrap_or(true) => Some(r.t_us),
            _ => None,
        }).max().unwrap_or(0);
        let reference = s.start_us.max(last_arr);
        rep.count(if seq >= 30000 { "c11_stray_tasks_judged" } else { "c11_tasks_judged" });
        match s.end_us {
            Some(e) if e <= reference + b => {}
            Some(_) => rep.violate("task-ends-late", format!("stray={} kind={:?}", seq >= 20000, s.kind), &info.case, w(&format!("{:?} task of {} ended later than its bound", s.kind, s.id))),
            None => {
                if log.end_us >= reference + b {
                    rep.violate("task-never-ends", format!("stray={} kind={:?}", seq >= 20000, s.kind), &info.case, w(&format!("{:?} task of {} never ended", s.kind, s.id)));
                }
            }
        }
    }
    // "its own limits": a receive transaction started by a stray or replayed PDU runs under the configuration
    // of the entity named as its source, like any other; its inactivity fault comes L x Ti after the last PDU
    {
        let k = &info.knobs[0];
        let need = k.limit as u64 * k.ti as u64 * 1_000_000;
        let mut first_seen: HashSet<(TransactionID, bool)> = HashSet::new();
        for sp in &d.tasks {
            if sp.kind != TaskKind::Recv {
                continue;
            }
            let first_life = first_seen.insert((sp.id, true));
            let stray = sp.id.1.to_u64() >= 30000 || !first_life;
            if !stray {
                continue;
            }
            let end = sp.end_us.unwrap_or(log.end_us);
            // with two live tasks for one id (a re-created transaction next to an orphaned one) indications cannot
            // be attributed to one of them: not judged
            let overlapping = d.tasks.iter().any(|o| o.kind == TaskKind::Recv && o.id == sp.id && o.start_us != sp.start_us && o.start_us <= end && o.end_us.unwrap_or(log.end_us) >= sp.start_us);
            if overlapping {
                continue;
            }
            // the entity that hosts it: where its PDUs arrived
            let mut host = None;
            let mut arr_t: Vec<u64> = vec![];
            for r in &log.recs {
                if let Ev::Arrive { ent, pdu: Some(p), .. } = &r.ev {
                    if pdu_tid(p) == sp.id && p.header.direction == Direction::ToReceiver && r.t_us >= sp.start_us && r.t_us <= end {
                        host = host.or(Some(*ent));
                        if host == Some(*ent) {
                            arr_t.push(r.t_us);
                        }
                    }
                }
            }
            let host = match host {
                Some(h) => h,
                None => continue,
            };
            for (_, tf, f) in d.faults(host, sp.id) {
                if f.condition == Condition::InactivityDetected && tf >= sp.start_us && tf <= end {
                    let last = arr_t.iter().filter(|t| **t < tf).max().cloned().unwrap_or(sp.start_us);
                    rep.count("c11_stray_inactivity_timed");
                    let el = tf - last;
                    if el + 10_000 < need || el > need + k.limit as u64 * 50_000 + 10_000 {
                        rep.violate("stray-limits-wrong", format!("{} L={} Ti={}", if el < need { "early" } else { "late" }, k.limit, k.ti), &info.case, w(&format!("receive transaction {} started by a stray/replayed PDU declared InactivityDetected {:.3}s after its last PDU; the configuration for that source entity says {} x {} s", sp.id, el as f64 / 1e6, k.limit, k.ti)));
                    }
                    break;
                }
            }
        }
    }
    // two live receive transactions for one id at the same time
    for (i, a) in d.tasks.iter().enumerate() {
        for bsp in d.tasks.iter().skip(i + 1) {
            if a.id == bsp.id && a.kind == bsp.kind && bsp.start_us < a.end_us.unwrap_or(u64::MAX) && bsp.start_us > a.start_us {
                rep.count("c11_observed:two-live-tasks-for-one-id");
            }
        }
    }
    rep.nontrivial(case_sig(info, log));
    if info.transfers.len() < 8 {
        rep.sample(sample_json(log, info, 60));
    }
}

pub fn run_c11(tier: &str, seed: u64, replay: Option<&str>) -> (Meta, Report) {
    let meta = Meta {
        property: "C11",
        level: "exploration",
        rule: "seeded scenarios: 2-3 real daemons, 4-40 transfers with distinct tagged files started within 60 ms in random directions, 1/3 unacknowledged, random knobs, limit 4 with at most 3 drops per pair of entities (C02 hypothesis) plus duplications and delays, paced or burst delivery (every 5th scenario: up to three files of 130-430 segments delivered in one burst, filling the daemon's per-transaction queues), 0-7 injected stray PDUs (responses to non-existent senders, PDUs naming entity 99, data/EOF/metadata of transactions nobody started, random bytes, truncated PDUs) and 0-2 replays of recorded PDUs up to 8 s later, 0-3 response PDUs (Finished, ACK(EOF), NAK) delivered once more to their sender 0.15-2 s into the run (its transaction has ended, the daemon may not have cleaned up yet), fire-and-forget Puts in a third of the scenarios; every run ends with a probe transfer and a Report. distinct_nontrivial = distinct (config, event-order) signatures.".into(),
        exhaustive: false,
        assumptions: vec!["unacknowledged transfers carry no delivery guarantee under loss: for them only 'a reported delivery holds the transfer's own file' and termination are judged".into(), "sequence numbers are 2, 4 or 8 bytes wide and start at 1 or just below the top of their width (fewer Puts than the sequence space)".into()],
        require: vec![("c11_ack_transfers_judged".into(), 2000), ("c11_stray_tasks_judged".into(), 50), ("c11_probes".into(), 100), ("c11_runs:3-daemons".into(), 50), ("c11_fire_and_forget_puts".into(), 50), ("c11_checked:sender-silent-after-success".into(), 1000)],
        extra: vec![],
    };
    if let Some(r) = replay {
        let (_, fam, idx, sd) = parse_case(r);
        return (meta, run_single(c11_case(&fam, idx, sd).expect("case"), judge_c11));
    }
    let n = if tier == "thorough" { 50_000 } else { 500 };
    let mut rep = run_cases(n, "c11-rand", move |i| c11_case("rand", i, seed), |info, log, rep| {
        judge_c11(info, log, rep);
        crate::p_xfer::judge_c01(info, log, rep);
    });
    rep.add("cases:rand", n as u64);
    (meta, rep)
}
