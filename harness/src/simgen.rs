//! Scenario building blocks shared by the E1 property workloads.
use crate::sim::*;
use crate::util::Rng;
use cfdp_core::daemon::{EntityConfig, NakProcedure};
use cfdp_core::filestore::ChecksumType;
use cfdp_core::pdu::*;
use std::collections::HashMap;
use std::time::Duration;

#[derive(Clone, Debug)]
pub struct Knobs {
    pub mode: TransmissionMode,
    pub closure: bool,
    pub nak: NakProcedure,
    pub crc: bool,
    pub checksum: ChecksumType,
    pub seg: u16,
    pub ti: i64,
    pub ta: i64,
    pub tn: i64,
    pub limit: u32,
    pub handlers: Vec<(Condition, FaultHandlerAction)>,
}
impl Knobs {
    pub fn base() -> Knobs {
        Knobs {
            mode: TransmissionMode::Acknowledged,
            closure: false,
            nak: NakProcedure::Deferred(Duration::ZERO),
            crc: false,
            checksum: ChecksumType::Modular,
            seg: 64,
            ti: 10,
            ta: 3,
            tn: 4,
            limit: 3,
            handlers: vec![],
        }
    }
    pub fn config(&self) -> EntityConfig {
        EntityConfig {
            fault_handler_override: self.handlers.iter().cloned().collect::<HashMap<_, _>>(),
            file_size_segment: self.seg,
            default_transaction_max_count: self.limit,
            inactivity_timeout: self.ti,
            ack_timeout: self.ta,
            nak_timeout: self.tn,
            crc_flag: if self.crc { CRCFlag::Present } else { CRCFlag::NotPresent },
            closure_requested: self.closure,
            checksum_type: self.checksum,
            nak_procedure: self.nak,
        }
    }
    pub fn describe(&self) -> String {
        format!(
            "{}{} {} crc={} {:?} seg={} Ti={} Ta={} Tn={} L={}{}",
            if self.mode == TransmissionMode::Acknowledged { "ack" } else { "unack" },
            if self.closure { "+closure" } else { "" },
            nak_name(&self.nak),
            self.crc as u8,
            self.checksum,
            self.seg,
            self.ti,
            self.ta,
            self.tn,
            self.limit,
            if self.handlers.is_empty() { String::new() } else { format!(" handlers={:?}", self.handlers) }
        )
    }
    /// short form for finding keys
    pub fn shape(&self) -> String {
        format!(
            "{}{}/{}",
            if self.mode == TransmissionMode::Acknowledged { "ack" } else { "unack" },
            if self.closure { "+closure" } else { "" },
            match self.nak {
                NakProcedure::Immediate(d) if d.is_zero() => "imm0",
                NakProcedure::Immediate(_) => "immD",
                NakProcedure::Deferred(d) if d.is_zero() => "def0",
                NakProcedure::Deferred(_) => "defD",
            }
        )
    }
}
pub fn nak_name(n: &NakProcedure) -> String {
    match n {
        NakProcedure::Immediate(d) => format!("Immediate({}ms)", d.as_millis()),
        NakProcedure::Deferred(d) => format!("Deferred({}ms)", d.as_millis()),
    }
}
pub fn nak_procs() -> [NakProcedure; 4] {
    [
        NakProcedure::Deferred(Duration::ZERO),
        NakProcedure::Deferred(Duration::from_millis(500)),
        NakProcedure::Immediate(Duration::ZERO),
        NakProcedure::Immediate(Duration::from_millis(500)),
    ]
}

/// Content classes. Every file starts with a tag derived from `tag` so that a cross-wired or stale
/// file is recognisable (except the classes that must stay checksum-neutral / all-zero).
pub fn content(rng: &mut Rng, size: usize, class: u64, seg: usize, tag: u64) -> Vec<u8> {
    let mut v = match class % 6 {
        0 | 5 => rng.bytes(size),
        1 => vec![0u8; size],
        2 => {
            // random with long zero runs
            let mut v = rng.bytes(size);
            let mut i = 0;
            while i < size {
                let run = seg.max(4) * (1 + rng.usize(2));
                if rng.bool() {
                    for b in v.iter_mut().skip(i).take(run) {
                        *b = 0;
                    }
                }
                i += run;
            }
            v
        }
        3 => {
            // checksum-neutral per segment: word pairs (w, -w) tile each segment-sized block, so losing
            // (or zeroing) any whole aligned segment leaves the modular checksum unchanged
            let mut v = Vec::with_capacity(size);
            while v.len() < size {
                let w = rng.next_u64() as u32;
                v.extend_from_slice(&w.to_be_bytes());
                v.extend_from_slice(&(0u32.wrapping_sub(w)).to_be_bytes());
            }
            v.truncate(size);
            // neutralise the tail that does not fill a pair
            let full = size - size % 8;
            for b in v.iter_mut().skip(full) {
                *b = 0;
            }
            v
        }
        _ => (0..size).map(|i| (i % 251) as u8).collect(),
    };
    if matches!(class % 6, 0 | 4 | 5) && size >= 8 {
        v[..8].copy_from_slice(&tag.to_be_bytes());
    }
    v
}
pub fn content_name(class: u64) -> &'static str {
    match class % 6 {
        0 | 5 => "random",
        1 => "zeros",
        2 => "zero-runs",
        3 => "checksum-neutral",
        _ => "ramp",
    }
}

/// File sizes around segment boundaries.
pub fn sizes(seg: usize) -> Vec<usize> {
    vec![0, 1, seg - 1, seg, seg + 1, 2 * seg, 3 * seg, 3 * seg + 1, 5 * seg - 1, 8 * seg]
}

/// Two real entities (0 = sender, 1 = receiver) sharing `k`, one transfer.
pub fn two_party(case: &str, seed: u64, k: &Knobs, content: Vec<u8>) -> Scenario {
    let cfg = k.config();
    let b = bound_ms(&cfg, 2000);
    Scenario {
        case: case.to_string(),
        seed,
        entities: vec![
            EntityCfg { id: 1, config: cfg.clone(), scripted: false },
            EntityCfg { id: 2, config: cfg, scripted: false },
        ],
        transfers: vec![TransferSpec {
            src: 0,
            dst: 1,
            mode: k.mode,
            content,
            src_name: "src0.bin".into(),
            dst_name: "dst0.bin".into(),
            requests: vec![],
            start_ms: 0,
            stale_dest: None,
        }],
        rules: vec![],
        scripts: vec![],
        peers: vec![],
        latency_ms: 5,
        tx_ms: 1,
        paced: true,
        observe_ms: 3 * b,
        min_observe_ms: 0,
        probe: false,
        final_reports: false,
        plant: vec![],
        dropper: None,
        seq_start: None,
        preset_ids: vec![],
        forget_puts: vec![],
        stall_after: vec![],
        plant_sparse: vec![],
    }
}

/// Number of PDUs the sender emits in a clean first pass: metadata + segments + EOF.
pub fn first_pass_len(size: usize, seg: usize) -> usize {
    1 + size.div_ceil(seg) + 1
}
