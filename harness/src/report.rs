//! Verdict bookkeeping shared by all engines. Three-valued per case: held / violated / inconclusive.
use crate::util::J;
use std::collections::{BTreeMap, HashSet};

#[derive(Clone, Debug)]
pub struct Violation {
    /// name of the oracle rule that fired
    pub oracle: String,
    /// canonical description of the *cause* (never the seed); with `oracle` it identifies a finding
    pub key: String,
    /// case id that re-creates the execution (`--replay <case>`)
    pub case: String,
    /// human readable witness
    pub detail: String,
}

#[derive(Default)]
pub struct Report {
    pub evaluations: u64,
    pub sigs: HashSet<u64>,
    pub violations: BTreeMap<(String, String), (u64, Violation)>,
    pub inconclusive: BTreeMap<String, (u64, String)>,
    pub counters: BTreeMap<String, u64>,
    pub samples: Vec<J>,
    pub max_samples: usize,
}

impl Report {
    pub fn new() -> Self {
        Report {
            max_samples: 6,
            ..Default::default()
        }
    }
    pub fn count(&mut self, k: &str) {
        *self.counters.entry(k.to_string()).or_insert(0) += 1;
    }
    pub fn add(&mut self, k: &str, n: u64) {
        *self.counters.entry(k.to_string()).or_insert(0) += n;
    }
    pub fn get(&self, k: &str) -> u64 {
        self.counters.get(k).copied().unwrap_or(0)
    }
    pub fn eval(&mut self) {
        self.evaluations += 1;
    }
    /// record the signature of a non-trivial case (fault fired and oracle antecedent met)
    pub fn nontrivial(&mut self, sig: u64) {
        self.sigs.insert(sig);
    }
    pub fn violate(&mut self, oracle: &str, key: String, case: &str, detail: String) {
        let e = self
            .violations
            .entry((oracle.to_string(), key.clone()))
            .or_insert_with(|| {
                (
                    0,
                    Violation {
                        oracle: oracle.to_string(),
                        key,
                        case: case.to_string(),
                        detail,
                    },
                )
            });
        e.0 += 1;
    }
    pub fn inconclusive(&mut self, reason: &str, case: &str) {
        let e = self
            .inconclusive
            .entry(reason.to_string())
            .or_insert_with(|| (0, case.to_string()));
        e.0 += 1;
    }
    pub fn sample(&mut self, j: J) {
        if self.samples.len() < self.max_samples {
            self.samples.push(j);
        }
    }
    pub fn merge(&mut self, o: Report) {
        self.evaluations += o.evaluations;
        self.sigs.extend(o.sigs);
        for (k, (n, v)) in o.violations {
            let e = self.violations.entry(k).or_insert((0, v));
            e.0 += n;
        }
        for (k, (n, c)) in o.inconclusive {
            let e = self.inconclusive.entry(k).or_insert((0, c));
            e.0 += n;
        }
        for (k, n) in o.counters {
            *self.counters.entry(k).or_insert(0) += n;
        }
        for s in o.samples {
            if self.samples.len() < self.max_samples.max(6) {
                self.samples.push(s);
            }
        }
    }
}

pub struct Meta {
    pub property: &'static str,
    pub level: &'static str,
    pub rule: String,
    pub exhaustive: bool,
    pub assumptions: Vec<String>,
    /// counters that must reach a minimum for the run to count as decided
    pub require: Vec<(String, u64)>,
    pub extra: Vec<(String, J)>,
}

pub fn result_json(meta: &Meta, rep: &Report, tier: &str, seed: u64, wall_s: f64) -> J {
    let mut undecided = vec![];
    for (k, min) in &meta.require {
        if rep.get(k) < *min {
            undecided.push(J::s(format!(
                "antecedent '{}' observed {} times, need >= {}",
                k,
                rep.get(k),
                min
            )));
        }
    }
    let inconc: u64 = rep.inconclusive.values().map(|x| x.0).sum();
    if rep.evaluations > 0 && inconc * 100 > rep.evaluations {
        undecided.push(J::s(format!(
            "{} of {} cases inconclusive (>1%)",
            inconc, rep.evaluations
        )));
    }
    {
        let hp = crate::util::HARNESS_PANICS.lock().unwrap();
        if !hp.is_empty() {
            undecided.push(J::s(format!("harness code panicked in {} case(s), e.g. {}", hp.len(), hp[0])));
        }
    }
    if rep.evaluations == 0 {
        undecided.push(J::s("no case was evaluated"));
    }
    let viol: Vec<J> = rep
        .violations
        .values()
        .map(|(n, v)| {
            J::obj()
                .set("oracle", J::s(&v.oracle))
                .set("key", J::s(&v.key))
                .set("count", J::U(*n))
                .set("case", J::s(&v.case))
                .set("detail", J::s(&v.detail))
        })
        .collect();
    let inc: Vec<J> = rep
        .inconclusive
        .iter()
        .map(|(k, (n, c))| {
            J::obj()
                .set("reason", J::s(k))
                .set("count", J::U(*n))
                .set("case", J::s(c))
        })
        .collect();
    let mut o = J::obj()
        .set("property", J::s(meta.property))
        .set("level", J::s(meta.level))
        .set("tier", J::s(tier))
        .set("seed", J::U(seed))
        .set("wall_s", J::F(wall_s))
        .set("evaluations", J::U(rep.evaluations))
        .set("distinct_nontrivial", J::U(rep.sigs.len() as u64))
        .set("rule", J::s(&meta.rule))
        .set("exhaustive", J::B(meta.exhaustive))
        .set("samples", J::A(rep.samples.clone()))
        .set("observed", J::from_counts(&rep.counters))
        .set(
            "assumptions",
            J::A(meta.assumptions.iter().map(J::s).collect()),
        )
        .set("violations", J::A(viol))
        .set("inconclusive", J::A(inc))
        .set("inconclusive_total", J::U(inconc))
        .set("undecided", J::A(undecided));
    for (k, v) in &meta.extra {
        o.put(k.clone(), v.clone());
    }
    o
}
