//! Small self-contained helpers: PRNG, JSON writer, hashing, a worker pool.
use std::collections::BTreeMap;
use std::sync::atomic::{AtomicU64, AtomicUsize, Ordering};
use std::sync::{Arc, Mutex};
use std::time::Instant;

/// splitmix64-seeded xoshiro256**
#[derive(Clone, Debug)]
pub struct Rng {
    s: [u64; 4],
}
fn splitmix(x: &mut u64) -> u64 {
    *x = x.wrapping_add(0x9E3779B97F4A7C15);
    let mut z = *x;
    z = (z ^ (z >> 30)).wrapping_mul(0xBF58476D1CE4E5B9);
    z = (z ^ (z >> 27)).wrapping_mul(0x94D049BB133111EB);
    z ^ (z >> 31)
}
impl Rng {
    pub fn new(seed: u64) -> Self {
        let mut x = seed ^ 0x5DEECE66D;
        let s = [
            splitmix(&mut x),
            splitmix(&mut x),
            splitmix(&mut x),
            splitmix(&mut x),
        ];
        Rng { s }
    }
    /// derive an independent stream from (seed, a, b)
    pub fn derive(seed: u64, a: u64, b: u64) -> Self {
        let mut x = seed;
        let k = splitmix(&mut x) ^ a.wrapping_mul(0xA24BAED4963EE407);
        let mut y = k;
        let k2 = splitmix(&mut y) ^ b.wrapping_mul(0x9FB21C651E98DF25);
        Rng::new(k2)
    }
    pub fn next_u64(&mut self) -> u64 {
        let r = self.s[1].wrapping_mul(5).rotate_left(7).wrapping_mul(9);
        let t = self.s[1] << 17;
        self.s[2] ^= self.s[0];
        self.s[3] ^= self.s[1];
        self.s[1] ^= self.s[2];
        self.s[0] ^= self.s[3];
        self.s[2] ^= t;
        self.s[3] = self.s[3].rotate_left(45);
        r
    }
    pub fn below(&mut self, n: u64) -> u64 {
        if n == 0 {
            0
        } else {
            self.next_u64() % n
        }
    }
    pub fn range(&mut self, lo: u64, hi_incl: u64) -> u64 {
        lo + self.below(hi_incl - lo + 1)
    }
    pub fn usize(&mut self, n: usize) -> usize {
        self.below(n as u64) as usize
    }
    pub fn chance(&mut self, num: u64, den: u64) -> bool {
        self.below(den) < num
    }
    pub fn bool(&mut self) -> bool {
        self.next_u64() & 1 == 1
    }
    pub fn byte(&mut self) -> u8 {
        (self.next_u64() >> 24) as u8
    }
    pub fn bytes(&mut self, n: usize) -> Vec<u8> {
        let mut v = Vec::with_capacity(n);
        while v.len() < n {
            let x = self.next_u64().to_le_bytes();
            let k = (n - v.len()).min(8);
            v.extend_from_slice(&x[..k]);
        }
        v
    }
    pub fn pick<'a, T>(&mut self, xs: &'a [T]) -> &'a T {
        &xs[self.usize(xs.len())]
    }
    pub fn shuffle<T>(&mut self, xs: &mut [T]) {
        for i in (1..xs.len()).rev() {
            let j = self.usize(i + 1);
            xs.swap(i, j);
        }
    }
}

pub fn fnv1a(bytes: &[u8]) -> u64 {
    let mut h: u64 = 0xcbf29ce484222325;
    for b in bytes {
        h ^= *b as u64;
        h = h.wrapping_mul(0x100000001b3);
    }
    h
}
pub fn fnv_mix(h: u64, x: u64) -> u64 {
    let mut h = h;
    for b in x.to_le_bytes() {
        h ^= b as u64;
        h = h.wrapping_mul(0x100000001b3);
    }
    h
}

pub fn hex(b: &[u8]) -> String {
    let mut s = String::with_capacity(b.len() * 2);
    for x in b {
        s.push_str(&format!("{:02x}", x));
    }
    s
}
pub fn unhex(s: &str) -> Option<Vec<u8>> {
    let s = s.trim();
    if s.len() % 2 != 0 {
        return None;
    }
    let mut v = Vec::with_capacity(s.len() / 2);
    for i in (0..s.len()).step_by(2) {
        v.push(u8::from_str_radix(&s[i..i + 2], 16).ok()?);
    }
    Some(v)
}

/// Minimal JSON value (writer only).
#[derive(Clone, Debug)]
pub enum J {
    Null,
    B(bool),
    I(i64),
    U(u64),
    F(f64),
    S(String),
    A(Vec<J>),
    O(Vec<(String, J)>),
}
impl J {
    pub fn s<T: Into<String>>(x: T) -> J {
        J::S(x.into())
    }
    pub fn obj() -> J {
        J::O(vec![])
    }
    pub fn set<T: Into<String>>(mut self, k: T, v: J) -> J {
        if let J::O(ref mut o) = self {
            o.push((k.into(), v));
        }
        self
    }
    pub fn put<T: Into<String>>(&mut self, k: T, v: J) {
        if let J::O(ref mut o) = self {
            o.push((k.into(), v));
        }
    }
    pub fn from_counts(m: &BTreeMap<String, u64>) -> J {
        J::O(m.iter().map(|(k, v)| (k.clone(), J::U(*v))).collect())
    }
    pub fn write(&self, out: &mut String) {
        match self {
            J::Null => out.push_str("null"),
            J::B(b) => out.push_str(if *b { "true" } else { "false" }),
            J::I(i) => out.push_str(&i.to_string()),
            J::U(u) => out.push_str(&u.to_string()),
            J::F(f) => {
                if f.is_finite() {
                    out.push_str(&format!("{:.6}", f))
                } else {
                    out.push_str("null")
                }
            }
            J::S(s) => {
                out.push('"');
                for c in s.chars() {
                    match c {
                        '"' => out.push_str("\\\""),
                        '\\' => out.push_str("\\\\"),
                        '\n' => out.push_str("\\n"),
                        '\r' => out.push_str("\\r"),
                        '\t' => out.push_str("\\t"),
                        c if (c as u32) < 0x20 => out.push_str(&format!("\\u{:04x}", c as u32)),
                        c => out.push(c),
                    }
                }
                out.push('"');
            }
            J::A(a) => {
                out.push('[');
                for (i, x) in a.iter().enumerate() {
                    if i > 0 {
                        out.push(',');
                    }
                    x.write(out);
                }
                out.push(']');
            }
            J::O(o) => {
                out.push('{');
                for (i, (k, v)) in o.iter().enumerate() {
                    if i > 0 {
                        out.push(',');
                    }
                    J::S(k.clone()).write(out);
                    out.push(':');
                    v.write(out);
                }
                out.push('}');
            }
        }
    }
    pub fn to_string(&self) -> String {
        let mut s = String::new();
        self.write(&mut s);
        s
    }
}

/// Cases in which harness (or unprotected library) code panicked; reported as undecided.
pub static HARNESS_PANICS: Mutex<Vec<String>> = Mutex::new(Vec::new());

/// Progress slot of one worker, read by the watchdog.
pub struct Slot {
    pub case: Mutex<Option<(String, Instant)>>,
}

/// Run `n` cases on `threads` workers. `f(worker_state, index)`; per-worker state is created by
/// `init` and returned at the end for merging. A watchdog aborts the process (exit 3, line
/// `WATCHDOG case=<label>`) if one case runs longer than `watchdog_s` wall seconds.
pub fn run_pool<S: Send + 'static>(
    n: usize,
    threads: usize,
    watchdog_s: u64,
    init: impl Fn(usize) -> S + Send + Sync + 'static,
    label: impl Fn(usize) -> String + Send + Sync + 'static,
    f: impl Fn(&mut S, usize) + Send + Sync + 'static,
) -> Vec<S> {
    let next = Arc::new(AtomicUsize::new(0));
    let init = Arc::new(init);
    let f = Arc::new(f);
    let label = Arc::new(label);
    let slots: Arc<Vec<Slot>> = Arc::new(
        (0..threads)
            .map(|_| Slot {
                case: Mutex::new(None),
            })
            .collect(),
    );
    let done = Arc::new(AtomicU64::new(0));
    let mut handles = vec![];
    for w in 0..threads {
        let next = next.clone();
        let init = init.clone();
        let f = f.clone();
        let label = label.clone();
        let slots = slots.clone();
        let done = done.clone();
        handles.push(
            std::thread::Builder::new()
                .stack_size(16 << 20)
                .spawn(move || {
                    let mut st = init(w);
                    loop {
                        let i = next.fetch_add(1, Ordering::SeqCst);
                        if i >= n {
                            break;
                        }
                        *slots[w].case.lock().unwrap() = Some((label(i), Instant::now()));
                        // a panic in harness code must not take the verdicts of the other cases with it
                        let r = std::panic::catch_unwind(std::panic::AssertUnwindSafe(|| f(&mut st, i)));
                        if r.is_err() {
                            HARNESS_PANICS.lock().unwrap().push(label(i));
                        }
                        *slots[w].case.lock().unwrap() = None;
                    }
                    done.fetch_add(1, Ordering::SeqCst);
                    st
                })
                .unwrap(),
        );
    }
    // watchdog
    {
        let slots = slots.clone();
        let done = done.clone();
        let threads = threads as u64;
        std::thread::spawn(move || loop {
            std::thread::sleep(std::time::Duration::from_millis(500));
            if done.load(Ordering::SeqCst) >= threads {
                break;
            }
            for s in slots.iter() {
                if let Some((l, t)) = s.case.lock().unwrap().as_ref() {
                    if t.elapsed().as_secs() >= watchdog_s {
                        println!("WATCHDOG case={}", l);
                        std::process::exit(3);
                    }
                }
            }
        });
    }
    handles.into_iter().map(|h| h.join().unwrap()).collect()
}

pub fn n_threads() -> usize {
    std::env::var("VERIF_THREADS")
        .ok()
        .and_then(|s| s.parse().ok())
        .unwrap_or_else(|| {
            std::thread::available_parallelism()
                .map(|n| n.get())
                .unwrap_or(4)
        })
}

static JAILED: std::sync::atomic::AtomicBool = std::sync::atomic::AtomicBool::new(false);

pub fn jailed() -> bool {
    JAILED.load(Ordering::SeqCst)
}

/// Confine the whole process to a fresh scratch directory (chroot). Everything an engine creates,
/// and everything a filestore under test can reach through a hostile name, is then inside that
/// directory. Returns the jail's path as seen from outside. Needs CAP_SYS_CHROOT.
pub fn enter_jail(name: &str) -> Result<String, String> {
    let base = if std::path::Path::new("/dev/shm").is_dir() {
        "/dev/shm".to_string()
    } else {
        std::env::var("TMPDIR").unwrap_or_else(|_| "/tmp".into())
    };
    let d = format!("{}/cfdp-verif-{}-{}", base, std::process::id(), name);
    let deep = format!("{}/work/0/1/2/3/4/5/6/7/8/9", d);
    std::fs::create_dir_all(&deep).map_err(|e| format!("create jail: {}", e))?;
    std::fs::create_dir_all(format!("{}/tmp", d)).map_err(|e| format!("create jail tmp: {}", e))?;
    std::fs::create_dir_all(format!("{}/s", d)).map_err(|e| format!("create jail s: {}", e))?;
    std::os::unix::fs::chroot(&d).map_err(|e| format!("chroot({}): {}", d, e))?;
    std::env::set_current_dir("/work/0/1/2/3/4/5/6/7/8/9").map_err(|e| format!("chdir: {}", e))?;
    std::env::set_var("TMPDIR", "/tmp");
    JAILED.store(true, Ordering::SeqCst);
    Ok(d)
}

/// Remove everything inside the jail (the directory itself is removed by the driver).
pub fn clean_jail() {
    if jailed() {
        for d in ["/s", "/tmp", "/work"] {
            let _ = std::fs::remove_dir_all(d);
        }
    }
}

/// A fresh scratch directory (inside the jail); the caller removes it.
pub fn scratch(name: &str) -> String {
    assert!(jailed(), "scratch directories are only handed out inside the jail");
    static N: AtomicU64 = AtomicU64::new(0);
    let d = format!("/s/{}-{}", name, N.fetch_add(1, Ordering::SeqCst));
    std::fs::create_dir_all(&d).expect("create scratch dir");
    d
}
