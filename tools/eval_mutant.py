#!/usr/bin/env python3
"""Confirm a seeded change produced by a sub-agent and run the /verif checks against it.

  tools/eval_mutant.py <worktree> <N> <property> [--checks C01,C07] [--skip-suite] [--tier quick]

<worktree>/MUTANT/<N>/{patch.diff,demo/,meta.json} as delivered. Everything happens in the scratch
worktree (never in /repo): the demo is run without and with the patch, the repository's suite with
the patch, then a scratch copy of /verif whose harness points at the worktree runs the checks.
Writes <worktree>/MUTANT/<N>/eval.json.
"""
import json
import os
import re
import shutil
import subprocess
import sys
import time

FLAKY = {"f1s08", "f1s09", "f1s10"}


def sh(cmd, cwd, timeout=3600):
    env = dict(os.environ)
    env["CARGO_NET_OFFLINE"] = "true"
    env.pop("RUSTFLAGS", None)
    t0 = time.time()
    p = subprocess.run(cmd, cwd=cwd, shell=True, stdout=subprocess.PIPE, stderr=subprocess.STDOUT, text=True, env=env, timeout=timeout)
    return p.returncode, p.stdout, time.time() - t0


def main():
    wt, n, prop = sys.argv[1], sys.argv[2], sys.argv[3]
    checks = [prop]
    skip_suite = "--skip-suite" in sys.argv
    tier = "quick"
    for i, a in enumerate(sys.argv):
        if a == "--checks":
            checks = sys.argv[i + 1].split(",")
        if a == "--tier":
            tier = sys.argv[i + 1]
    m = os.path.join(wt, "MUTANT", n)
    meta = json.load(open(os.path.join(m, "meta.json")))
    res = {"property": prop, "mutant": n, "worktree": wt}
    prev = {}
    if os.path.exists(os.path.join(m, "eval.json")):
        prev = json.load(open(os.path.join(m, "eval.json")))
    if skip_suite:
        for k in ("suite_summary", "suite_failed", "suite_passes_with_patch", "suite_wall_s"):
            if k in prev:
                res[k] = prev[k]
    # clean tracked files
    sh("git checkout -- . ", wt)
    demo_files = meta.get("demo_files", {})
    placed = []
    for rel, src in demo_files.items():
        srcp = os.path.join(m, src) if not os.path.isabs(src) else src
        if not os.path.exists(srcp):
            srcp = os.path.join(m, "demo", os.path.basename(src))
        dst = os.path.join(wt, rel)
        os.makedirs(os.path.dirname(dst), exist_ok=True)
        shutil.copy(srcp, dst)
        placed.append(dst)
    demo_cmd = re.sub(r"\s*\(fallback:.*\)\s*$", "", meta["demo_cmd"])  # some authors append a prose fallback
    # strip a leading "cp ... &&" the agent may have included
    rc0, out0, w0 = sh(demo_cmd, wt)
    res["demo_without_patch_rc"] = rc0
    res["demo_without_patch_tail"] = out0[-600:]
    rc, out, _ = sh("git apply %s" % os.path.join(m, "patch.diff"), wt)
    res["patch_applies"] = rc == 0
    if rc != 0:
        res["error"] = out[-800:]
    else:
        rc1, out1, w1 = sh(demo_cmd, wt)
        res["demo_with_patch_rc"] = rc1
        res["demo_with_patch_tail"] = out1[-600:]
        if not skip_suite:
            # the suite without the demo files in place (they would fail by design)
            for f in placed:
                os.rename(f, f + ".off")
            rcs, outs, ws = sh("cargo nextest run --workspace --no-fail-fast --offline --test-threads 8", wt)
            for f in placed:
                os.rename(f + ".off", f)
            failed = set(re.findall(r"^\s+(?:FAIL|TIMEOUT|SIGABRT|SIGSEGV)\s+\[[^\]]*\]\s+(?:\(\S+\)\s+)?\S+\s+(\S+)", outs, re.M))
            summ = re.findall(r"Summary \[[^\]]*\]\s+(.*)", outs)
            res["suite_summary"] = summ[-1] if summ else outs[-400:]
            res["suite_failed"] = sorted(failed)
            res["suite_passes_with_patch"] = bool(summ) and all(any(f.endswith(x) for x in FLAKY) for f in failed)
            res["suite_wall_s"] = round(ws, 1)
    # scratch copy of /verif pointing at the worktree (patch still applied)
    if res.get("patch_applies"):
        vh = os.path.join(wt, "MUTANT", "vh")
        if not os.path.exists(vh):
            os.makedirs(vh)
        # committed state of /verif only (the working tree may be mid-edit); keep the build cache
        sh("mkdir -p %s/.new && git -C /verif archive HEAD | tar -x -C %s/.new && rsync -a --delete --exclude harness/target --exclude miri_c06/target --exclude out --exclude .new %s/.new/ %s/ && rm -rf %s/.new" % (vh, vh, vh, vh, vh), "/")
        for ct in ["harness/Cargo.toml", "miri_c06/Cargo.toml"]:
            p = os.path.join(vh, ct)
            if os.path.exists(p):
                s = open(p).read().replace('"/repo/', '"%s/' % wt)
                open(p, "w").write(s)
        res["checks"] = {}
        for c in checks:
            rcc, outc, wc = sh("./check %s --tier %s" % (c, tier), vh, timeout=7200)
            lines = [l for l in outc.splitlines() if l.startswith(("VIOLATION", "KNOWN-FINDING", "OK ", "INCONCLUSIVE", "  oracle="))]
            res["checks"][c] = {"rc": rcc, "wall_s": round(wc, 1), "lines": lines[:12]}
        shutil.rmtree(os.path.join(vh, "out"), ignore_errors=True)
    sh("git checkout -- .", wt)
    for f in placed:
        try:
            os.remove(f)
        except OSError:
            pass
    res["confirmed"] = bool(res.get("patch_applies") and res.get("demo_without_patch_rc") == 0 and res.get("demo_with_patch_rc", 0) != 0 and res.get("suite_passes_with_patch"))
    res["detected_by"] = [c for c, r in res.get("checks", {}).items() if r["rc"] == 1]
    json.dump(res, open(os.path.join(m, "eval.json"), "w"), indent=1)
    print(json.dumps({k: v for k, v in res.items() if not k.endswith("_tail")}, indent=1))


if __name__ == "__main__":
    main()
