#!/usr/bin/env python3
"""Regenerates /verif/MANIFEST.json from the table below and validates it against the schema."""
import json
import os
import sys

HERE = os.path.dirname(os.path.dirname(os.path.abspath(__file__)))

# id -> (category, engine, technique, level text, level note, design ref)
P = {
 "C01": ("exploration", "sim", "runtime monitor: byte comparison of the delivered file at every success indication, over seeded virtual-time executions of two real daemons on a hostile link",
         "Held on the executions produced: every Finished(NoError, Complete, Retained) indication observed at either user was checked, at the quiescent instant it was reported, against the source snapshot (length and bytes). Executions are sampled over content classes (incl. checksum-neutral and zero runs), sizes around segment boundaries, both modes, closure, 4 NAK procedures, CRC, checksum type, and random fault plans (drop/dup/delay/reorder/corrupt) plus a systematic single-lost-segment core. Not a proof: schedules and contents are sampled.",
         "Trusts: tokio's paused clock and seeded select (same code paths as production, virtual time), the harness link (SimTransport via the public PDUTransport trait), tmpfs filesystem semantics.", "DESIGN.md §5 C01"),
 "C02": ("fault_enumeration", "sim", "runtime monitor over systematically enumerated fault placements (every 1- and 2-fault placement of drop/dup/delay over both directions) on virtual-time executions",
         "Every single and double fault placement within the property's hypothesis over the exchange of small files is executed against the real daemons; the oracle demands receiver success, sender success, byte-identical destination and termination of both tasks within the bound. Exhaustive for the enumerated layers; larger files and triples are sampled; an adaptive random dropper that keeps every retransmission counter below its limit adds long recoveries with many losses and progress in between.",
         "Hypothesis region is strictly inside the property's (F < limit, delays < min timer/2, Ti >= Ta+Tn). Trusts the simulator's link and virtual clock.", "DESIGN.md §5 C02"),
 "C03": ("fault_enumeration", "sim", "runtime monitor: task-lifetime guard (hook H3) + virtual clock; blackout at every emission index, termination bound checked per transaction",
         "For every cut point of the exchange (blackout of either/both directions at every emission index) x mode x closure x NAK procedure, every transaction task must end within the bound B after the last PDU delivered to it, no loop may spin at one virtual instant, and the daemons must afterwards serve a fresh transfer and a Report. Enumerated cut points are complete for the reference exchanges; configurations are a grid; user cancels, heavy random loss, Prompt requests at random points (including while the receiver waits for the ACK of Finished) and sequences of 1-4 user primitives (Cancel/Suspend/Resume/Prompt/Report) at either entity from every point of the exchange are sampled, as are late copies of every PDU kind delivered to either entity after its Fault/Finished/Abandon indication in every end state (with per-condition handlers); transports that stop taking PDUs for good (back-pressure instead of loss: the receiver's at any point, the sender's once its EOF has gone out) are sampled too; a transaction is exempt from the bound only while the user holds it suspended or after a fault whose configured handler is ignore/suspend was actually declared.",
         "Timeouts >= 1 s (zero-second timers are not a meaningful configuration). The bound B is generous by design; a hang never ends and is caught by the 3*B observation window.", "DESIGN.md §5 C03"),
 "C04": ("fault_enumeration", "sim", "runtime monitor over enumerated re-deliveries of every previously sent PDU (singles and pairs) into the window between the receiver's success indication and its end",
         "After the receiver's first success indication, each previously emitted PDU (and each pair) is delivered again while ACK(Finished) is withheld; the oracle checks the destination bytes, a non-idempotent append marker (requests executed exactly once), absence of integrity faults, and that sender success implies an earlier receiver success. Exhaustive for files of <= 3 segments, in acknowledged mode and in unacknowledged mode with closure; a second enumerated family loses every ACK(Finished) (optionally every Finished PDU) so that the receiver runs through its positive-ACK limit into the cancelled state, and re-delivers every first-pass PDU after that fault; a third family configures the receiver to ignore a checksum failure, corrupts one byte without CRC, loses the first Finished PDU and re-delivers a first-pass PDU (the sender must not report a success the receiver never reported). The window stays open when the receiving task vanished without ACK(Finished), a declared fault or a user cancel.",
         "Only the still-open transaction is in scope (as the property says). Trusts the simulator.", "DESIGN.md §5 C04"),
 "C05": ("exploration", "pure", "differential monitor: decode(encode(x)) == x and encoded_len == bytes produced, over generated values with the discrete fields enumerated",
         "Millions of generated well-formed values of every public codec type, discrete fields (flags, id widths 1/2/4/8, conditions, directives, statuses) enumerated completely, the rest random with boundary values; each is encoded, decoded and compared, and announced lengths are compared with produced lengths. Coverage cells per type must be non-empty.",
         "The generator respects exactly the wire-format limits named in the property; values outside them are not generated.", "DESIGN.md §5 C05"),
 "C06": ("exploration", "pure", "runtime monitor: catch_unwind + counting global allocator + re-encode canonicality oracle over hostile byte strings, in an overflow-checking and a wrapping build; Miri lane in thorough",
         "Random, prefix-enumerated, truncated and single-byte-mutated inputs are fed to every public decoder; a panic, an allocation above the bound, or a non-canonical accept is a violation. Both arithmetic profiles are exercised; the thorough tier repeats a sample under Miri.",
         "Allocation bound: largest single request <= 128 KiB, peak <= 512 KiB per decode call. Inputs are sampled, not all byte strings.", "DESIGN.md §5 C06"),
 "C07": ("exploration", "sim", "runtime monitor at the sender's transport boundary: every emitted PDU compared byte-for-byte with the source file, tiling/allowance/obligation oracles; scripted (non-conforming) receiver",
         "Every PDU a real sending daemon hands to the link is checked against the source file on disk (bytes at offset, length caps, in-order first-pass tiling, retransmissions only for requested bytes and every requested in-file byte answered, true metadata/EOF, header identifiers and length). NAK shapes (overlapping, unsorted, empty, beyond EOF, long) are injected before/during/after the first pass by a scripted receiver; in a quarter of the runs the sending user suspends and resumes in the middle of the first pass; sparse sources of 2^32-2 .. 2^33 bytes check the size fields and the large-file flag of every PDU.",
         "NAK ranges beyond EOF are bounded to a few segments past the end. Trusts the simulator.", "DESIGN.md §5 C07"),
 "C08": ("exploration", "sim", "runtime monitor at the receiver's transport boundary with a scripted sender: every NAK compared with the harness's exact knowledge of delivered bytes; all loss subsets enumerated for small files",
         "The harness plays the sender and knows exactly what it delivered; every NAK PDU emitted by the real receiver is checked for well-formedness, scope, size limit, and (after EOF) exact coverage of the missing bytes per round; deferred/immediate timing rules are checked on virtual timestamps. All subsets of lost segments/metadata for files of up to 6 segments are enumerated; late duplicates after the end re-create the receive transaction, which is judged for the deferred-procedure rule under a default configuration that differs from the peer's; in part of the runs the receiving user suspends and resumes the transaction between the first two deliveries (resuming is no reason to send a NAK under the deferred procedure); a family of its own lets the EOF and a missing segment arrive during the suspension (the first NAK round after the resume asks for nothing already held); a fifth of the scripted senders use the large-file flag.",
         "Rounds are delimited by the harness's own deliveries; arrival orders are sampled beyond the enumerated core.", "DESIGN.md §5 C08"),
 "C09": ("exploration", "pure", "reference-model monitor: the real segment list against a bitset/interval-set model after every operation; bounded-exhaustive sequences + long random walks",
         "All sequences of up to 4 segments over 12 positions and up to 3 over 16 are enumerated; after every merge the returned count, the running total, is_complete for every n and gaps for every window are compared with the set-union model; random walks cover offsets up to 2^64-1.",
         "Uses the cfg-guarded re-export of the crate-private Segments type (hook H2).", "DESIGN.md §5 C09"),
 "C10": ("fault_enumeration", "sim", "runtime monitor: Cancel injected before/after every emission and delivery index, combined with single losses of the handshake PDUs and peer blackout; termination, cancel condition and destination-file rules",
         "Cancel at sender or receiver at every index of the reference exchanges x modes x closure x single handshake losses x blackout; the oracle checks termination of the cancelling entity within its limits, termination and cancel condition at a reachable peer, that the destination name never exposes partial content, and that nothing is delivered after the receiver has reported the transaction cancelled (one recorded finding, three symptoms: the daemon re-creates a cancelled transaction from late PDUs); also cancels of suspended transactions, cancel followed by suspend/resume with a silent peer, and cancels issued late in a transaction's life (after a suspension longer than limit x ACK timeout) with the first handshake PDU lost, cancels after an earlier fault that was configured to be ignored, and cancels at an entity whose transport stops taking PDUs (back-pressure).",
         "A cancel may legitimately lose the race against completion; the cancel-condition rule applies only to runs where the receiver never reported success.", "DESIGN.md §5 C10"),
 "C11": ("exploration", "sim", "runtime monitor over multi-daemon executions with many overlapping transactions, stray/replayed/hostile PDUs: per-transaction outcome, tagged content, id distinctness, daemon liveness probe",
         "2-3 real daemons with up to tens of overlapping transfers in both directions and mixed modes under random loss, with injected stray PDUs and raw bytes, sequence numbers starting just below the wrap of their width, and a default configuration that differs from the per-entity one (a receive transaction started by a stray must show its source entity's timing) (virtual-time simulator), plus a real-time lane on a multi-thread runtime with a slow receiving filestore (back-pressure under real parallelism; runs during which the machine stalled are repeated, not judged); each transaction must deliver its own tagged content and report its own outcome, Put ids - also those of fire-and-forget Puts, as announced in Transaction indications - must be distinct, a sending entity reports nothing more for a transfer after its success report (response PDUs are re-delivered to senders whose transaction has just ended), and every daemon must still serve a fresh Put and Report at the end.",
         "Schedules are sampled by seed, latency pattern and burst/paced mode.", "DESIGN.md §5 C11"),
 "C12": ("exploration", "fs", "runtime monitor in a chroot jail: native-path containment + full tree snapshot of the sentinel parent before/after every operation, names enumerated over the hostile alphabet",
         "Every name of up to 5 components over {a, ., .., empty, leading /, the root path, a sibling extending the root's name} is fed to every filestore operation; the computed native path must stay inside the root and the sentinel tree outside the root must be unchanged (escaping reads are caught by unique sentinel contents).",
         "Lexical confinement as stated by the property; symlinks inside the root are not modelled. The engine runs chrooted so that an escape cannot damage the host.", "DESIGN.md §5 C12"),
 "C13": ("exploration", "fs+sim", "reference-model monitor of the filestore request semantics (status + full tree comparison after every request) and end-to-end monitor of request execution/reporting in simulated transactions",
         "(a) all request sequences of length <= 3 over a small namespace plus long random sequences against an executable model of the CFDP request semantics; (b) every single request and every ordered pair of requests end to end, plus transactions carrying request lists under fault placements: executed iff delivery succeeded, once, in order, rest not-performed after the first failure, and the same responses at the receiving user, in every Finished PDU of the delivering transaction (whatever condition it carries: also the one sent after the positive-ACK limit or a cancel that follows the delivery) and at the sending user.",
         "Where the repository's own tests pin a reading of the spec, the model follows the pinned behaviour.", "DESIGN.md §5 C13"),
 "C14": ("exploration", "pure", "differential monitor: public checksum function against the CCSDS definition over all lengths 0..N and chunked/short-read readers; single-byte sensitivity",
         "Every length 0..4200 and lengths around the 8 KiB buffer, structured and random content, through Cursor, a real File and readers returning scripted short reads; result compared with the reference sum; every single-byte change must change the result.",
         "Reference implementation is 6 lines written from the CCSDS definition.", "DESIGN.md §5 C14"),
 "C15": ("fault_enumeration", "pure", "fault-injection monitor: every single-bit, every pair (window) and every burst <= 16 bit pattern applied to a corpus of encoded PDUs with CRC; decode must reject or return the original",
         "All single flips, all pairs (whole PDU for short PDUs, sliding window otherwise) and all bursts up to 16 bits at every position after the 4 fixed octets, over a corpus of every PDU type x file-size flags x id widths; accepted-as-different is a violation. The other half - an unaltered CRC-carrying PDU is accepted as itself - is checked for every combination of the header flags x 16 id/sequence width pairs x 7 directive kinds.",
         "Error patterns start after the 4 fixed header octets as the property states.", "DESIGN.md §5 C15"),
 "C16": ("fault_enumeration", "udp", "runtime monitor on loopback: the real UdpTransport receives a long datagram then every truncation of another; returned value compared with decoding the truncated bytes alone",
         "Every truncation length of every corpus PDU following every longer corpus PDU, CRC on/off, lock-step over 127.0.0.1; the transport's result must equal PDU::decode of exactly the datagram's bytes.",
         "Needs loopback UDP; a receive that does not return in 5 s is inconclusive.", "DESIGN.md §5 C16"),
 "C17": ("exploration", "pure+sim", "reference-model monitor of Counter/Timer under the paused clock, and timestamp monitor of retransmissions, limit faults and handler actions in simulated blackouts over a (T, L) grid",
         "(a) random operation sequences on the real Counter/Timer compared with a reference counter after every step; (b) for a peer silent from every point of the exchange: exact number and spacing of EOF/Finished/NAK retransmissions, fault no earlier than L*T, reset on progress, the configured handler action (ignore/suspend/abandon/cancel) observed on the link and at the user, also with a different handler per condition and with timer configurations in which the inactivity limit precedes the ACK limit (two conditions compete at the sender), and a reached inactivity limit must be declared under its own condition; further families: a Prompt early in a data phase longer than the ACK timeout, a peer that only sends Keep Alive PDUs (no inactivity fault while it is heard), a sender suspended while it waits for the ACK of its EOF (suspended time counts neither towards the next retransmission nor towards the limit).",
         "Timing tolerance tau = 50 ms on the late side only (tokio timer granularity); never-earlier is exact.", "DESIGN.md §5 C17"),
 "C18": ("fault_enumeration", "sim", "runtime monitor of PDU kinds per direction, termination points and closure outcome in unacknowledged mode under every single and double loss",
         "Closure on/off x every single and double loss over the exchange x sizes incl. 0 x zero-run/neutral content: no ACK/NAK/KeepAlive from the receiver; without closure both end on EOF; with closure the receiver's Finished carries the true outcome, the sender waits for it, reports it and ends; incomplete data or missing metadata is never reported Complete. Further: user cancels at either entity with closure (the sender still waits for Finished and reports it; a cancelled, still open receiver is not revived by the EOF in flight), destinations that cannot be opened (a receiver given metadata and EOF always reports an outcome), and the direction rule over the unacknowledged runs of other properties' workloads.",
         "Which error condition accompanies an incomplete delivery is not judged.", "DESIGN.md §5 C18"),
 "C19": ("exploration", "sim", "runtime monitor of the suspended window: PDUs emitted and timer faults between the Suspended indication and Resume, at every index of the exchange, various suspension lengths; completion after resume",
         "Suspend/Resume at sender or receiver before/after every emission/delivery index, suspension lengths 0, T/2, 3*L*T, with single losses: inside the window no Metadata/FileData/EOF/NAK/Finished beyond an in-flight slack of 2 and no timer fault; after resume the transfer completes as in C02; in a third of the random runs the sending user prompts during the suspension.",
         "In-flight slack of 2 PDUs (capacity-1 channel to the transport).", "DESIGN.md §5 C19"),
 "C20": ("exploration", "sim", "runtime monitor comparing every progress figure (KeepAlive PDUs, Fault/Resumed/Abandon indications) with the harness's own count of delivered distinct bytes / highest offset emitted",
         "Prompts (KeepAlive) at every point, suspend/resume and blackout-induced faults at every index, with retransmissions and duplicates: receiver progress equals distinct bytes delivered, sender progress equals the highest offset emitted (or one tile in flight), both <= file size and non-decreasing; a scripted foreign sender delivers misaligned, overlapping data (a quarter of them announcing an unbounded file), and the same oracle runs over suspend/primitive-sequence/late-copy/adaptive-loss workloads of other properties.",
         "Paced mode: everything delivered before the figure was reported has been processed.", "DESIGN.md §5 C20"),
}

CLAIMED = [l.strip() for l in open(os.path.join(HERE, "tools", "claimed.txt")) if l.strip() and not l.startswith("#")]
NA_REASONS = {}
na_path = os.path.join(HERE, "tools", "not_applicable.json")
if os.path.exists(na_path):
    NA_REASONS = json.load(open(na_path))

checks = []
for pid in sorted(P):
    if pid not in CLAIMED:
        continue
    cat, eng, tech, text, note, ref = P[pid]
    checks.append({
        "property_id": pid,
        "quick_cmd": "./check %s --tier quick" % pid,
        "thorough_cmd": "./check %s --tier thorough" % pid,
        "evidence_file": "evidence/%s.json" % pid,
        "replay_cmd_template": "./check %s --replay {path}" % pid,
        "engine": eng,
        "level_claimed": {"category": cat, "text": text, "design_ref": ref},
        "level_note": note,
        "technique": tech,
    })
na = []
for pid in sorted(P):
    if pid not in CLAIMED:
        na.append({"property_id": pid, "reason": NA_REASONS.get(pid, "not claimed in this commit: its simulator oracle is still being built (runtime monitoring does apply; see DESIGN.md §5)")})

m = {
    "version": 1,
    "setup_cmd": "cd harness && CARGO_NET_OFFLINE=true cargo build --offline --release && CARGO_NET_OFFLINE=true cargo build --offline --profile wrap",
    "hooks": {
        "guard": "--cfg cfdp_verif",
        "enable": "RUSTFLAGS='--cfg cfdp_verif --cfg tokio_unstable' (set in /verif/harness/.cargo/config.toml; the harness has path dependencies on /repo/cfdp-core and /repo/cfdp-daemon, so every check rebuilds from /repo's working tree)",
        "baseline_off_cmd": "cd /repo/$(cat /w/out/cargo_root.txt) && cargo nextest run --workspace --no-fail-fast --tool-config-file pb:/w/lib/nextest.toml --profile pb --test-threads 8 --offline",
        "source_commits": ["f33838b", "c96bf0c"],
        "add_only": False,
    },
    "engines": [
        {"name": "sim", "path": "harness/src/sim.rs", "serves_properties": ["C01", "C02", "C03", "C04", "C07", "C08", "C10", "C11", "C13", "C17", "C18", "C19", "C20"],
         "kind_free_text": "virtual-time link simulator: real Daemons on a paused seeded current-thread tokio runtime, hostile in-memory link via PDUTransport, event log + online/offline oracles"},
        {"name": "pure", "path": "harness/src/pure_codec.rs", "serves_properties": ["C05", "C06", "C09", "C14", "C15", "C17"],
         "kind_free_text": "generators + reference-model/differential monitors over public (and cfg-re-exported) functions; catch_unwind and counting allocator"},
        {"name": "fs", "path": "harness/src/fs.rs", "serves_properties": ["C12", "C13"],
         "kind_free_text": "real NativeFileStore inside a chroot jail, tree snapshots and reference model"},
        {"name": "udp", "path": "harness/src/udp.rs", "serves_properties": ["C16"],
         "kind_free_text": "real UdpTransport on loopback"},
    ],
    "checks": checks,
    "not_applicable": na,
    "notes": "All checks: cwd=/verif, honour VERIF_SEED and VERIF_TIER, exit 0/1/2 (2 = could not decide, no VIOLATION line). known_findings.json lists recorded and fixed defects. H1 rewrites one `use` line of timer.rs into a cfg(not) / cfg pair, hence add_only=false.",
}
out = os.path.join(HERE, "MANIFEST.json")
json.dump(m, open(out, "w"), indent=1)
try:
    import jsonschema
    jsonschema.validate(m, json.load(open("/root/.vp/MANIFEST.schema.json")))
    print("MANIFEST.json valid;", len(checks), "claimed,", len(na), "not claimed")
except ImportError:
    print("jsonschema not available; written without validation")
