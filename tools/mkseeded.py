#!/usr/bin/env python3
"""Copies every confirmed seeded change from the sub-agents' scratch worktrees into /verif/seeded/<id>-<n>/
(patch.diff, demo/, meta.json) and writes seeded/README.md (which check catches which change)."""
import glob, json, os, shutil

OUT = "/verif/seeded"
rows = []
for m in sorted(glob.glob("/tmp/mut/*C??/MUTANT/[0-9]")):
    dn = m.split("/")[3]; prop = dn[-3:]; n = m.split("/")[5]
    tag = "%s-%s%s" % (prop, {"": "", "r2": "b", "r3": "c", "r4": "d", "r5": "e", "r6": "f"}[dn[:-3]], n)
    ev = json.load(open(os.path.join(m, "eval.json"))) if os.path.exists(os.path.join(m, "eval.json")) else {}
    fin = json.load(open(os.path.join(m, "final.json"))) if os.path.exists(os.path.join(m, "final.json")) else {}
    if not os.path.exists(os.path.join(m, "meta.json")) or not os.path.exists(os.path.join(m, "patch.diff")):
        continue  # still being produced
    meta = json.load(open(os.path.join(m, "meta.json")))
    confirmed = bool(ev.get("confirmed"))
    if not confirmed:
        print("skip (not confirmed):", tag)
        continue
    d = os.path.join(OUT, tag)
    shutil.rmtree(d, ignore_errors=True)
    os.makedirs(os.path.join(d, "demo"))
    shutil.copy(os.path.join(m, "patch.diff"), d)
    for f in glob.glob(os.path.join(m, "demo", "*")):
        shutil.copy(f, os.path.join(d, "demo"))
    detected = fin.get("detected_by", ev.get("detected_by", []))
    checks = fin.get("checks", ev.get("checks", {}))
    mj = {
        "id": tag,
        "breaks_property": prop,
        "summary": meta.get("summary"),
        "mechanism": meta.get("mechanism"),
        "needs_to_manifest": meta.get("needs_to_manifest"),
        "demo_files": meta.get("demo_files"),
        "demo_cmd": meta.get("demo_cmd"),
        "confirmed_here": {
            "how": "tools/eval_mutant.py in the author's scratch worktree: demonstration run without and with the patch, the repository's suite (cargo nextest run --workspace --no-fail-fast --offline) with the patch; tools/final_eval.py: patch applied to a scratch worktree of /repo HEAD, demonstration again, then the committed /verif checks (quick tier) against that worktree. /repo itself was never modified.",
            "demo_without_patch_rc": ev.get("demo_without_patch_rc"),
            "demo_with_patch_rc": ev.get("demo_with_patch_rc"),
            "suite_with_patch": ev.get("suite_summary"),
            "suite_failed_tests": ev.get("suite_failed"),
            "applies_to_repo_head": fin.get("patch_applies_to_head"),
            "repo_head": fin.get("repo_head"),
            "verif_commit": fin.get("verif_head"),
        },
        "checks_run": {c: {"exit": r["rc"], "wall_s": r.get("wall_s"), "first_lines": r.get("lines", [])[:4]} for c, r in checks.items()},
        "detected_by": detected,
    }
    json.dump(mj, open(os.path.join(d, "meta.json"), "w"), indent=1)
    first = ""
    for c in detected:
        ls = [l for l in checks[c].get("lines", []) if "oracle=" in l]
        if ls:
            first = ls[0].strip().split(" count=")[0]
            break
    rows.append((tag, prop, (meta.get("summary") or "")[:150].replace("|", "/"), ", ".join(detected) if detected else "**none**", first[:110].replace("|", "/")))

# entries already kept under seeded/ whose scratch worktree is gone: rows from their meta.json
have = {r[0] for r in rows}
for mjp in sorted(glob.glob(os.path.join(OUT, "*", "meta.json"))):
    mj = json.load(open(mjp))
    if mj.get("id") in have:
        continue
    first = ""
    for c in mj.get("detected_by", []):
        ls = [l for l in mj.get("checks_run", {}).get(c, {}).get("first_lines", []) if "oracle=" in l]
        if ls:
            first = ls[0].strip().split(" count=")[0]
            break
    det = mj.get("detected_by", [])
    rows.append((mj["id"], mj.get("breaks_property"), (mj.get("summary") or "")[:150].replace("|", "/"), ", ".join(det) if det else "**none**", first[:110].replace("|", "/")))
rows.sort(key=lambda r: (r[0][:3], {"": 0, "b": 1, "c": 2, "d": 3, "e": 4, "f": 5}.get(r[0][4:5] if r[0][4:5].isalpha() else "", 0), r[0]))

with open(os.path.join(OUT, "README.md"), "w") as f:
    f.write("# Seeded changes and the checks that catch them\n\nEach directory holds `patch.diff` (apply with `git -C /repo apply`, undo with `git -C /repo checkout -- .`), the author's demonstration under `demo/` and `meta.json` (what it breaks, what it needs to manifest, what was run here). All changes compile and pass the repository's unedited suite. Detection = the quick tier of the committed checks exits 1 with a VIOLATION line on the changed tree.\n\n")
    f.write("| id | change | caught by | first oracle that fired |\n|---|---|---|---|\n")
    for r in rows:
        f.write("| %s | %s | %s | %s |\n" % (r[0], r[2], r[3], r[4]))
    n_det = sum(1 for r in rows if r[3] != "**none**")
    f.write("\n%d of %d confirmed changes are caught by the quick tier of at least one check.\n" % (n_det, len(rows)))
print("wrote", len(rows), "entries")
