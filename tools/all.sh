#!/bin/bash
# run every claimed check (quick unless $1 given) and print one line each
cd "$(dirname "$0")/.."
tier=${1:-quick}
for p in $(grep -v '^#' tools/claimed.txt); do
  out=$(./check $p --tier $tier 2>&1); rc=$?
  echo "$p rc=$rc $(echo "$out" | grep -E '^(OK|VIOLATION|INCONCLUSIVE|KNOWN)' | head -3 | tr '\n' ' ')"
done
