#!/usr/bin/env python3
"""Final pass over all delivered seeded changes: apply each to a scratch worktree of /repo HEAD
(never /repo itself), re-run its demonstration without and with the patch, run the committed /verif
checks against it, and write <mutant>/final.json.   usage: tools/final_eval.py [ID-N ...]"""
import glob, json, os, re, shutil, subprocess, sys, time

WT = "/tmp/mut/HEAD"
CHECKS = {  # property -> checks to run (its own first)
 "C01": ["C01", "C04", "C10"], "C02": ["C02", "C17"], "C03": ["C03"], "C04": ["C04"], "C05": ["C05"], "C06": ["C06"], "C07": ["C07"], "C08": ["C08", "C11", "C04", "C19"],
 "C09": ["C09"], "C10": ["C10", "C03", "C17", "C19"], "C11": ["C11"], "C12": ["C12"], "C13": ["C13"], "C14": ["C14"], "C15": ["C15"], "C16": ["C16"],
 "C17": ["C17", "C19", "C02"], "C18": ["C18", "C10", "C03"], "C19": ["C19", "C03"], "C20": ["C20", "C09"],
}

def sh(cmd, cwd, timeout=7200):
    env = dict(os.environ); env["CARGO_NET_OFFLINE"] = "true"; env.pop("RUSTFLAGS", None)
    p = subprocess.run(cmd, cwd=cwd, shell=True, stdout=subprocess.PIPE, stderr=subprocess.STDOUT, text=True, env=env, timeout=timeout)
    return p.returncode, p.stdout

def main():
    if not os.path.isdir(WT):
        rc, out = sh("git -C /repo worktree add --detach %s HEAD" % WT, "/")
        assert rc == 0, out
    else:
        sh("git reset -q --hard && git clean -fdq -e VH && git checkout -q --detach $(git -C /repo rev-parse HEAD)", WT)
    head = sh("git rev-parse --short HEAD", WT)[1].strip()
    vh = os.path.join(WT, "VH")
    os.makedirs(vh, exist_ok=True)
    sh("mkdir -p %s/.new && git -C /verif archive HEAD | tar -x -C %s/.new && rsync -a --delete --exclude harness/target --exclude miri_c06/target --exclude out --exclude .new %s/.new/ %s/ && rm -rf %s/.new" % (vh, vh, vh, vh, vh), "/")
    for ct in ["harness/Cargo.toml", "miri_c06/Cargo.toml"]:
        p = os.path.join(vh, ct)
        s = open(p).read().replace('"/repo/', '"%s/' % WT)
        open(p, "w").write(s)
    verif_head = sh("git -C /verif rev-parse --short HEAD", "/")[1].strip()
    only = sys.argv[1:]
    for m in sorted(glob.glob("/tmp/mut/*C??/MUTANT/[0-9]")):
        dn = m.split("/")[3]; prop = dn[-3:]; n = m.split("/")[5]
        tag = "%s-%s%s" % (prop, {"": "", "r2": "b", "r3": "c", "r4": "d", "r5": "e", "r6": "f"}[dn[:-3]], n)
        if only and tag not in only:
            continue
        meta = json.load(open(os.path.join(m, "meta.json")))
        res = {"id": tag, "property": prop, "repo_head": head, "verif_head": verif_head}
        dirty = sh("git status --porcelain --untracked-files=no", WT)[1].strip()
        assert not dirty, "scratch worktree not clean: " + dirty
        sh("git reset -q --hard && git clean -fdq -e VH", WT)
        placed = []
        for rel, src in meta.get("demo_files", {}).items():
            srcp = os.path.join(m, src)
            if not os.path.exists(srcp):
                srcp = os.path.join(m, "demo", os.path.basename(src))
            dst = os.path.join(WT, rel)
            os.makedirs(os.path.dirname(dst), exist_ok=True)
            shutil.copy(srcp, dst); placed.append(dst)
        demo = re.sub(r"\s*\(fallback:.*\)\s*$", "", meta["demo_cmd"]).replace("/tmp/mut/%s" % dn, WT)
        demo = re.sub(r"cp\s+\S*MUTANT\S*\s+\S+\s*&&", "", demo)  # the demo files are already in place
        rc0, out0 = sh(demo, WT)
        res["demo_without_patch_rc"] = rc0
        rc, out = sh("git apply %s/patch.diff || git apply -3 %s/patch.diff" % (m, m), WT)
        res["patch_applies_to_head"] = rc == 0
        if rc == 0:
            rc1, out1 = sh(demo, WT)
            res["demo_with_patch_rc"] = rc1
            res["checks"] = {}
            for c in CHECKS[prop]:
                t0 = time.time()
                rcc, outc = sh("./check %s --tier quick" % c, vh)
                lines = [l[:300] for l in outc.splitlines() if l.startswith(("VIOLATION", "KNOWN-FINDING", "OK ", "INCONCLUSIVE", "  oracle="))]
                res["checks"][c] = {"rc": rcc, "wall_s": round(time.time() - t0, 1), "lines": lines[:8]}
            res["detected_by"] = [c for c, r in res["checks"].items() if r["rc"] == 1]
        else:
            res["error"] = out[-500:]
        sh("git reset -q --hard", WT)
        for f in placed:
            try: os.remove(f)
            except OSError: pass
        json.dump(res, open(os.path.join(m, "final.json"), "w"), indent=1)
        print(tag, "applies" if res.get("patch_applies_to_head") else "NO-APPLY", "demo", res.get("demo_without_patch_rc"), res.get("demo_with_patch_rc"), "detected_by", res.get("detected_by"), flush=True)

main()
