#!/usr/bin/env python3
import json,glob
for f in sorted(glob.glob('/tmp/mut/*C??/MUTANT/[0-9]/eval.json')):
    j=json.load(open(f))
    print(f.split('/')[3], j['mutant'], 'confirmed' if j['confirmed'] else 'NOT-CONFIRMED(demo0=%s demo1=%s suite=%s %s)'%(j.get('demo_without_patch_rc'),j.get('demo_with_patch_rc'),j.get('suite_passes_with_patch'),j.get('suite_failed')), 'detected_by', j['detected_by'], {c:r['rc'] for c,r in j.get('checks',{}).items()})
